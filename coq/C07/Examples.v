(* C07 -- non-vacuity: concrete non-trivial inputs meet the hypotheses of the theorems of
   Props.v, and the theorems' conclusions are observed on them by computation (tests, not proofs
   of anything general). *)
From Coq Require Import QArith Qcanon ZArith List Arith Bool Field Lia.
From Verif.lib Require Import Bsp.
From Verif.C02 Require Import Proofs Proofs_ref.
From Verif.C07 Require Import Model Proofs Discharge Ends Hess More Algebra Disk Chain NurbsOps ArcModel Props.
Import ListNotations.
Open Scope Qc_scope.

Definition qq (n : Z) (d : positive) : Qc := Q2Qc (n # d).
Definition ix_none_or (o : option nat) : option nat := o.

(* a biquadratic-by-linear vector function on [0,1]^2 with an interior knot *)
Definition ex_kv2 : KV := ([0; 0; 0; qq 1 2; 1; 1; 1], 2%nat).
Definition ex_kv1 : KV := ([0; 0; 1; 1], 1%nat).
Definition ex_f : bsp :=
  mk_bsp [ex_kv2; ex_kv1]
         (arr [4; 2]%nat 2 [0; 1; qq 3 1; qq (-1) 2; qq 2 1; qq 5 4; 1; 1;
                            qq 7 2; 0; qq (-2) 1; qq 1 8; qq 4 1; qq 4 1; qq 1 4; qq 3 1]) 2.
Definition ex_xs : list Qc := [qq 1 4; qq 3 4].     (* x = 1/4 (linear axis), y = 3/4 *)

Example ex_open : open_kv (fst ex_kv2) (snd ex_kv2) = true /\ open_kv (fst ex_kv1) (snd ex_kv1) = true.
Proof. split; vm_compute; reflexivity. Qed.

Lemma in_dom_of_bool : forall kv u, open_kv (fst kv) (snd kv) = true ->
  qleb (kn (fst kv) 0) u = true -> qleb u (kn (fst kv) (length (fst kv) - 1)) = true -> in_dom kv u.
Proof.
  intros kv u H A B. split; [apply open_kv_ok_l; exact H|]. split; apply qleb_iff; assumption.
Qed.

(* hypothesis of routes_agree_*, translate_spec, ..., jacobian_is_derivative *)
Example ex_dom : Forall2 in_dom (kvs ex_f) (rev ex_xs).
Proof. constructor; [|constructor; [|constructor]]; apply in_dom_of_bool; vm_compute; reflexivity. Qed.

(* the conclusions, observed: a non-zero value, all three routes equal *)
Example ex_routes :
  pw_val sel_fixed ex_f ex_xs 0 = Some (call_val ex_f ex_xs 0)
  /\ qeqb (call_val ex_f ex_xs 0) (qq 37 16) = true
  /\ pw_jac sel_fixed ex_f ex_xs 1 = Some (g_jac ex_f (rev ex_xs) 1).
Proof.
  split; [exact (routes_agree_val ex_f ex_xs 0 ex_dom)|]. split; [vm_compute; reflexivity|].
  exact (routes_agree_jac ex_f ex_xs 1 ex_dom).
Qed.

Example ex_pou : pou_at (kvs ex_f) (rev ex_xs).
Proof. exact (rows_partition_of_unity _ _ ex_dom). Qed.

(* Hend of boundary_is_trace: the collocation row at the left end is the unit row *)
Example ex_hend : row_equiv (dense_row ex_kv2 0 0 0) (0%nat, [1]).
Proof.
  assert (E : snd (dense_row ex_kv2 0 0 0) = [1; 0; 0; 0]).
  { vm_compute. repeat (apply f_equal2; [apply Qc_is_canon; reflexivity|]). reflexivity. }
  intros g. change (fst (dense_row ex_kv2 0 0 0)) with 0%nat. rewrite E. cbn [fst snd rdot]. ring.
Qed.

Example ex_hend_right : row_equiv (dense_row ex_kv2 0 0 1) ((kv_n ex_kv2 - 1)%nat, [1]).
Proof.
  assert (E : snd (dense_row ex_kv2 0 0 1) = [0; 0; 0; 1]).
  { vm_compute. repeat (apply f_equal2; [apply Qc_is_canon; reflexivity|]). reflexivity. }
  intros g. change (fst (dense_row ex_kv2 0 0 1)) with 0%nat. rewrite E.
  change (kv_n ex_kv2 - 1)%nat with 3%nat. cbn [fst snd rdot]. ring.
Qed.

(* open_ends: hypothesis of boundary_is_trace / nurbs_boundary_is_trace / support_restriction_spec *)
Example ex_open_ends : open_ends ex_kv2 /\ open_ends ex_kv1.
Proof.
  split; (split; [apply open_kv_ok_l; vm_compute; reflexivity|apply qltb_iff; vm_compute; reflexivity]).
Qed.

(* boundary_is_trace applied: the 'bottom' (axis 0, side 0) and 'right' (axis 1, side 1) sides of ex_f *)
Example ex_boundary : forall u c,
  g_val (boundary ex_f 0 0) [u] c = g_val ex_f [0; u] c
  /\ g_val (boundary ex_f 1 1) [u] c = g_val ex_f [u; 1] c.
Proof.
  intros u c. split.
  - exact (boundary_is_trace [] ex_kv2 [ex_kv1] (co ex_f) 2%nat [] [u] 0%nat c eq_refl eq_refl (proj1 ex_open_ends)).
  - exact (boundary_is_trace [ex_kv2] ex_kv1 [] (co ex_f) 2%nat [u] [] 1%nat c eq_refl eq_refl (proj2 ex_open_ends)).
Qed.

(* support restricted to [1/4, 3/4] x [1/4, 1/2]: boundary('top') (axis 0, side 1) is f at y = 3/4 *)
Example ex_restricted : forall u c,
  let ov := Some [(qq 1 4, qq 3 4); (qq 1 4, qq 1 2)] in
  r_boundary_val ov ex_f 0 1 [u] c = g_val ex_f [qq 3 4; u] c.
Proof.
  intros u c ov.
  exact (proj2 (support_restriction_spec ov [] ex_kv2 [ex_kv1] (co ex_f) 2%nat [] [u] 1%nat c eq_refl eq_refl
                 (fun E => match E in (_ = o) return match o with Some _ => True | None => open_ends ex_kv2 end with eq_refl => I end))).
Qed.

(* cylinderize: hypotheses met, the new component is the affine map of the new coordinate *)
Example ex_cylinderize :
  qeqb (call_val (b_cylinderize ex_f (qq 1 1) (qq 3 1) (qq 1 2) (qq 3 2)) (ex_xs ++ [qq 1 1]) 2) (qq 2 1) = true
  /\ call_val (b_cylinderize ex_f (qq 1 1) (qq 3 1) (qq 1 2) (qq 3 2)) (ex_xs ++ [qq 1 1]) 0 = call_val ex_f ex_xs 0.
Proof.
  split; [vm_compute; reflexivity|].
  rewrite (cylinderize_spec ex_f (qq 1 1) (qq 3 1) (qq 1 2) (qq 3 2) ex_xs (qq 1 1) 0); [reflexivity| | | |exact ex_dom];
    apply qleb_iff || apply qltb_iff; vm_compute; reflexivity.
Qed.

(* ComposedFunction: geo2 = a bilinear scalar function on [0,4]^2 (contains the image of ex_f), geo1 = ex_f *)
Definition ex_kv04 : KV := ([0; 0; qq 4 1; qq 4 1], 1%nat).
Definition ex_g2 : bsp := mk_bsp [ex_kv04; ex_kv04] (arr [2; 2]%nat 1 [0; 1; qq 2 1; qq 5 1]) 1.
Example ex_composed_dom : Forall2 in_dom (kvs ex_g2) (rev (comp_point ex_f (rev ex_xs))).
Proof. constructor; [|constructor; [|constructor]]; apply in_dom_of_bool; vm_compute; reflexivity. Qed.
Example ex_composed : comp_val ex_g2 ex_f (rev ex_xs) 0 = Some (call_val ex_g2 (comp_point ex_f (rev ex_xs)) 0).
Proof. exact (proj1 (composed_routes ex_g2 ex_f (rev ex_xs) 0 ex_composed_dom)). Qed.

(* a NURBS function with positive weights: hypotheses of nurbs_translate_spec / nurbs_is_quotient *)
Definition ex_n : bsp :=
  mk_nurbs [ex_kv1; ex_kv1] (arr [2; 2]%nat 2 [0; 1; qq 3 1; 1; qq 1 2; qq 2 1; qq 5 2; qq 7 2])
           (arr0 [2; 2]%nat [1; qq 1 2; qq 2 1; qq 3 2]) 2.
Example ex_weight_nonzero : g_val ex_n [qq 1 3; qq 1 5] (wcomp ex_n) <> 0.
Proof. intro E. apply Qc_eq_Qeq in E. vm_compute in E. discriminate E. Qed.
Example ex_quotient_rule :
  let V := g_val ex_n [qq 1 3; qq 1 5] 0 in let W := g_val ex_n [qq 1 3; qq 1 5] 2 in
  qeqb (nth 0 (n_jac ex_n [qq 1 3; qq 1 5] 0) 0 * W + (V / W) * nth 0 (g_jac ex_n [qq 1 3; qq 1 5] 2) 0)
       (nth 0 (g_jac ex_n [qq 1 3; qq 1 5] 0) 0) = true.
Proof. vm_compute. reflexivity. Qed.

(* the indexing as written in /repo: sdim 3 gives another value, sdim 1 raises *)
Example ex_asis : pw_val sel_asis f_wit xs_wit 0 <> pw_val sel_fixed f_wit xs_wit 0
                  /\ pw_val sel_asis (mk_bsp [ex_kv1] (arr [2]%nat 1 [0; 1]) 1) [qq 1 2] 0 = None.
Proof. split; [|reflexivity]. vm_compute. intro E. discriminate E. Qed.

(* Hessian slots for sdim = 2, 3 *)
Example ex_hess_order :
  map (fun ij => (2 - 1 - fst ij, 2 - 1 - snd ij)%nat) (hess_pairs 2) = [(0, 0); (0, 1); (1, 1)]%nat
  /\ map (fun ij => (3 - 1 - fst ij, 3 - 1 - snd ij)%nat) (hess_pairs 3)
     = [(0, 0); (0, 1); (0, 2); (1, 1); (1, 2); (2, 2)]%nat.
Proof. split; reflexivity. Qed.

(* ---- circular arcs: the field hypotheses are met by Qc with the rational angle (4/5, 3/5), and
   the Bezier-segment form of Algebra.v is what the B-spline basis of circular_arc_7pt's knot
   vector yields: control directions by angle addition, weights (1,c,1,c,1,c,1), radius 2 *)
Definition cc : Qc := qq 4 5.
Definition ss : Qc := qq 3 5.
Example ex_unit : cc * cc + ss * ss = 1.
Proof. apply Qc_is_canon. vm_compute. reflexivity. Qed.

Example ex_arc3_Qc : forall r t,
  seg_x Qc 1 Qcplus Qcmult Qcminus 1 0 cc ss r t * seg_x Qc 1 Qcplus Qcmult Qcminus 1 0 cc ss r t
  + seg_y Qc 1 Qcplus Qcmult Qcminus 1 0 cc ss r t * seg_y Qc 1 Qcplus Qcmult Qcminus 1 0 cc ss r t
  = (r * seg_w Qc 1 Qcplus Qcmult Qcminus cc t) * (r * seg_w Qc 1 Qcplus Qcmult Qcminus cc t).
Proof. intros. exact (arc3_on_circle Qc 0 1 Qcplus Qcmult Qcminus Qcopp Qcdiv Qcinv Qcft cc ss r t ex_unit). Qed.

Fixpoint dirs (n : nat) (Cd Sd : Qc) : list (Qc * Qc) :=
  match n with O => [] | S n' => (Cd, Sd) :: dirs n' (Cd * cc - Sd * ss) (Sd * cc + Cd * ss) end.
Definition arc7_kv : KV := ([0; 0; 0; qq 1 3; qq 1 3; qq 2 3; qq 2 3; 1; 1; 1], 2%nat).
Definition arc7 : bsp :=
  let r := qq 2 1 in
  let flat := flat_map (fun kd => let '(k, (Cd, Sd)) := kd in [r * Cd; r * Sd; if Nat.even k then 1 else cc])
                       (combine (seq 0 7) (dirs 7 1 0)) in
  mk_bsp [arc7_kv] (arr [7]%nat 3 flat) 3.
Example ex_arc7_on_circle :
  forallb (fun t => qeqb (n_val arc7 [t] 0 * n_val arc7 [t] 0 + n_val arc7 [t] 1 * n_val arc7 [t] 1) (qq 4 1))
          [0; qq 1 5; qq 1 3; qq 1 2; qq 7 10; qq 9 10; 1] = true.
Proof. vm_compute. reflexivity. Qed.

(* Python index semantics of __getitem__ on an axis of length 3 / 4 *)
Example ex_py_index :
  py_wrap 3 (-1) = Some 2%nat /\ py_wrap 3 (-3) = Some 0%nat /\ py_wrap 3 3 = None /\ py_wrap 3 (-4) = None
  /\ py_slice 3 (Some 1%Z) None 1 = [1; 2]%nat /\ py_slice 3 None None (-1) = [2; 1; 0]%nat
  /\ py_slice 4 (Some (-3)%Z) (Some (-1)%Z) 1 = [1; 2]%nat /\ py_slice 4 None (Some 0%Z) (-2) = [3; 1]%nat
  /\ py_slice 4 (Some 10%Z) (Some (-10)%Z) (-3) = [3; 0]%nat /\ py_slice 3 (Some 2%Z) (Some 1%Z) 1 = []
  /\ py_list 3 [2; -3; -1]%Z = Some [2; 0; 2]%nat /\ sel_comps 2 3 [2; 0]%nat = [2; 0; 5; 3]%nat.
Proof. repeat split; reflexivity. Qed.
(* G[-1] of the NURBS example is its last numerator component, not the weight *)
Example ex_nurbs_getitem_last :
  match ix_none_or (py_wrap 2 (-1)) with
  | Some k => qeqb (n_val (n_select ex_n [k]) [qq 1 3; qq 1 5] 0) (n_val ex_n [qq 1 3; qq 1 5] 1)
  | None => false end = true.
Proof. vm_compute. reflexivity. Qed.

(* nurbs_hessian_is_derivative: hypotheses met by ex_n (sdim 2, slot 1 = xy), conclusion observed *)
Example ex_nurbs_hess_slot : nth 1 (triu (sdim ex_n)) (0, 0)%nat = (0, 1)%nat /\ (1 < length (triu (sdim ex_n)))%nat.
Proof. split; [reflexivity|vm_compute; repeat constructor]. Qed.
Example ex_triu3 : triu 3 = [(0, 0); (0, 1); (0, 2); (1, 1); (1, 2); (2, 2)]%nat.
Proof. reflexivity. Qed.

(* disk: the unit constraints are met in Qc by (4/5, 3/5) and by the exact rotation (0, -1) *)
Example ex_disk_Qc : forall r,
  on_circle Qc 1 Qcplus Qcmult Qcminus r (disk_T Qc 0 1 Qcplus Qcmult Qcminus Qcopp cc ss 0 (- (1)) r).
Proof.
  intros r.
  refine (proj2 (proj2 (proj2 (disk_boundary_on_circle Qc 0 1 Qcplus Qcmult Qcminus Qcopp Qcdiv Qcinv Qcft cc ss 0 (- (1)) r ex_unit _)))).
  ring.
Qed.

(* basis_interpolatory_at_ends observed on ex_kv2 *)
Example ex_ends : map (fun j => Nref (fst ex_kv2) 2 j 0) (seq 0 4) = map (fun j => if Nat.eqb j 0 then 1 else 0) (seq 0 4).
Proof.
  apply map_ext_in. intros j Hj. apply in_seq in Hj.
  apply (proj1 (basis_interpolatory_at_ends (fst ex_kv2) 2 j (proj1 (proj1 ex_open_ends)) ltac:(unfold numdofs; simpl; lia))).
  exact (proj2 (proj1 ex_open_ends)).
Qed.

(* ---- NURBS branches of the operations: a NURBS function whose weights are non-zero for EVERY index
   (constant weight 2, numerator of ex_f), the hypotheses of nurbs_apply_matrix_spec / nurbs_outer_*_spec *)
Definition ex_nw : bsp :=
  mk_bsp (kvs ex_f) (fun idx c => if Nat.eqb c 2 then qq 2 1 else co ex_f idx c) 3.
Example ex_nw_weights : (forall idx, co ex_nw idx (wcomp ex_nw) <> 0)
                        /\ g_val ex_nw (rev ex_xs) (wcomp ex_nw) <> 0 /\ wcomp ex_nw = 2%nat.
Proof.
  split; [|split; [|reflexivity]].
  - intros idx E. apply Qc_eq_Qeq in E. vm_compute in E. discriminate E.
  - intro E. apply Qc_eq_Qeq in E. vm_compute in E. discriminate E.
Qed.
Example ex_nurbs_rotate :
  n_val (n_rotate ex_nw cc ss) (rev ex_xs) 0 = cc * n_val ex_nw (rev ex_xs) 0 - ss * n_val ex_nw (rev ex_xs) 1.
Proof.
  exact (proj1 (nurbs_rotate_spec ex_nw cc ss (rev ex_xs) (proj2 (proj2 ex_nw_weights))
                 (proj1 ex_nw_weights) (proj1 (proj2 ex_nw_weights)))).
Qed.
Example ex_nurbs_outer_sum :
  n_val (n_outer_sum ex_nw ex_nw) (rev ex_xs ++ rev ex_xs) 1 = n_val ex_nw (rev ex_xs) 1 + n_val ex_nw (rev ex_xs) 1.
Proof.
  exact (nurbs_outer_sum_spec ex_nw ex_nw (rev ex_xs) (rev ex_xs) eq_refl (proj1 ex_nw_weights) (proj1 ex_nw_weights)
           (proj1 (proj2 ex_nw_weights)) (proj1 (proj2 ex_nw_weights)) 1%nat ltac:(vm_compute; repeat constructor)).
Qed.
Example ex_rotate_isometry :
  g_val (b_rotate ex_f cc ss) (rev ex_xs) 0 * g_val (b_rotate ex_f cc ss) (rev ex_xs) 0
  + g_val (b_rotate ex_f cc ss) (rev ex_xs) 1 * g_val (b_rotate ex_f cc ss) (rev ex_xs) 1
  = g_val ex_f (rev ex_xs) 0 * g_val ex_f (rev ex_xs) 0 + g_val ex_f (rev ex_xs) 1 * g_val ex_f (rev ex_xs) 1.
Proof. exact (rotate_isometry ex_f cc ss (rev ex_xs) eq_refl ex_unit). Qed.

(* ---- the arc constructors on the model with the rational angle (4/5, 3/5): hypotheses met, the weight is non-zero
   and the quotient lies on the circle (observed by computation at a point of every span) *)
Example ex_arc_models : forall t, 0 <= t -> t <= 1 ->
  (let X := g_val (arc5_fn cc ss (qq 3 1)) [t] 0 in let Y := g_val (arc5_fn cc ss (qq 3 1)) [t] 1 in
   let W := g_val (arc5_fn cc ss (qq 3 1)) [t] 2 in X * X + Y * Y = (qq 3 1 * W) * (qq 3 1 * W))
  /\ (let X := g_val (arc7_fn cc ss (qq 3 1)) [t] 0 in let Y := g_val (arc7_fn cc ss (qq 3 1)) [t] 1 in
      let W := g_val (arc7_fn cc ss (qq 3 1)) [t] 2 in X * X + Y * Y = (qq 3 1 * W) * (qq 3 1 * W)).
Proof.
  intros t H0 H1. split.
  - exact (arc5_model_on_circle cc ss (qq 3 1) t ex_unit H0 H1).
  - exact (arc7_model_on_circle cc ss (qq 3 1) t ex_unit H0 H1).
Qed.
Example ex_arc_models_observed :
  forallb (fun t => qeqb (n_val (arc7_fn cc ss (qq 3 1)) [t] 0 * n_val (arc7_fn cc ss (qq 3 1)) [t] 0
                          + n_val (arc7_fn cc ss (qq 3 1)) [t] 1 * n_val (arc7_fn cc ss (qq 3 1)) [t] 1) (qq 9 1)
                    && qeqb (n_val (arc5_fn cc ss (qq 3 1)) [t] 0 * n_val (arc5_fn cc ss (qq 3 1)) [t] 0
                             + n_val (arc5_fn cc ss (qq 3 1)) [t] 1 * n_val (arc5_fn cc ss (qq 3 1)) [t] 1) (qq 9 1)
                    && qeqb (n_val (arc3_fn cc ss (qq 3 1)) [t] 0 * n_val (arc3_fn cc ss (qq 3 1)) [t] 0
                             + n_val (arc3_fn cc ss (qq 3 1)) [t] 1 * n_val (arc3_fn cc ss (qq 3 1)) [t] 1) (qq 9 1))
          [0; qq 1 7; qq 1 3; qq 1 2; qq 3 5; qq 2 3; qq 9 10; 1] = true.
Proof. vm_compute. reflexivity. Qed.
