(* C05 -- proofs: Boehm knot insertion preserves the function (Cox-de Boor reference),
   composition to arbitrary refinement, row sums, non-negativity. *)
From Coq Require Import QArith Qcanon ZArith List Bool Arith Lia Lqa.
From Verif.lib Require Import Bsp.
From Verif.C02 Require Import Proofs.
From Verif.C05 Require Import Model.
Import ListNotations.
Open Scope Qc_scope.

(* ------------------------------------------------------------------ *)
(* order reasoning on Qc through lra on Q *)
Lemma Qc_eq_Qeq (a b : Qc) : a = b <-> (a == b)%Q.
Proof. split; [intros ->; reflexivity | apply Qc_is_canon]. Qed.

Ltac qo :=
  repeat match goal with
  | H : @eq Qc _ _ |- _ => apply Qc_eq_Qeq in H
  | H : ~ @eq Qc _ _ |- _ => rewrite Qc_eq_Qeq in H
  end;
  try apply Qc_eq_Qeq; unfold Qcle, Qclt in *; lra.

Lemma Qcsub_eq0 (a b : Qc) : a - b = 0 -> a = b.
Proof. intros H. rewrite <- (Qcplus_0_l b). rewrite <- H. ring. Qed.

Lemma Qcsub_neq0 (a b : Qc) : a <> b -> a - b <> 0.
Proof. intros N E. apply N. apply Qcsub_eq0. exact E. Qed.

(* ------------------------------------------------------------------ *)
(* the Cox-de Boor reference over knot functions *)
Definition in_spanF (t : nat -> Qc) (last : Qc) (i : nat) (u : Qc) : bool :=
  (qleb (t i) u && qltb u (t (S i)))
  || (qeqb u last && qltb (t i) (t (S i)) && qeqb (t (S i)) last).

Fixpoint NF (t : nat -> Qc) (last : Qc) (p i : nat) (u : Qc) : Qc :=
  match p with
  | O => if in_spanF t last i u then 1 else 0
  | S q =>
      (u - t i) / (t (i + p)%nat - t i) * NF t last q i u
      + (t (i + p + 1)%nat - u) / (t (i + p + 1)%nat - t (i + 1)%nat) * NF t last q (S i) u
  end.

Lemma Nref_NF kv p : forall i u, Nref kv p i u = NF (kn kv) (kn kv (length kv - 1)) p i u.
Proof.
  induction p as [|q IH]; intros i u.
  - reflexivity.
  - cbn [Nref NF]. rewrite !IH. reflexivity.
Qed.

(* locality: only the knots i .. i+p+1 (and the right end point) matter *)
Lemma NF_ext last p : forall t t' i i' u,
  (forall j, (j <= p + 1)%nat -> t (i + j)%nat = t' (i' + j)%nat) ->
  NF t last p i u = NF t' last p i' u.
Proof.
  induction p as [|q IH]; intros t t' i i' u H.
  - cbn [NF]. unfold in_spanF.
    pose proof (H 0%nat ltac:(lia)) as H0. pose proof (H 1%nat ltac:(lia)) as H1.
    rewrite !Nat.add_0_r in H0. rewrite !Nat.add_1_r in H1. rewrite H0, H1. reflexivity.
  - cbn [NF].
    pose proof (H 0%nat ltac:(lia)) as H0. rewrite !Nat.add_0_r in H0.
    pose proof (H 1%nat ltac:(lia)) as H1.
    pose proof (H (S q) ltac:(lia)) as H2.
    pose proof (H (S q + 1)%nat ltac:(lia)) as H3. rewrite !Nat.add_assoc in H3.
    rewrite H0, H1, H2, H3.
    rewrite (IH t t' i i' u) by (intros j Hj; apply H; lia).
    rewrite (IH t t' (S i) (S i') u).
    + reflexivity.
    + intros j Hj. replace (S i + j)%nat with (i + S j)%nat by lia.
      replace (S i' + j)%nat with (i' + S j)%nat by lia. apply H. lia.
Qed.

(* a B-spline over p+2 coinciding knots is the zero function *)
Lemma NF_zero last p : forall t i u,
  (forall j, (j <= p)%nat -> t (i + j)%nat <= t (i + S j)%nat) ->
  t i = t (i + p + 1)%nat -> NF t last p i u = 0.
Proof.
  induction p as [|q IH]; intros t i u Hs He.
  - cbn [NF]. unfold in_spanF. rewrite Nat.add_0_r, Nat.add_1_r in He.
    rewrite <- He.
    replace (qltb (t i) (t i)) with false by (symmetry; apply qltb_false_iff; apply Qcle_refl).
    rewrite andb_false_r. cbn [andb orb].
    destruct (qleb (t i) u) eqn:E1; [|reflexivity].
    destruct (qltb u (t i)) eqn:E2; [|reflexivity].
    apply qleb_iff in E1. apply qltb_iff in E2. exfalso. qo.
  - assert (Hc : forall a b, (a <= b)%nat -> (b <= S q + 1)%nat -> t (i + a)%nat <= t (i + b)%nat).
    { intros a b Hab Hb. induction b as [|b IHb].
      - replace a with 0%nat by lia. apply Qcle_refl.
      - destruct (Nat.eq_dec a (S b)) as [->|Hn]; [apply Qcle_refl|].
        eapply Qcle_trans; [apply IHb; lia|]. apply Hs. lia. }
    assert (Hall : forall a, (a <= S q + 1)%nat -> t (i + a)%nat = t i).
    { intros a Ha. pose proof (Hc 0%nat a ltac:(lia) Ha) as A. pose proof (Hc a (S q + 1)%nat Ha ltac:(lia)) as B.
      rewrite Nat.add_0_r in A. rewrite Nat.add_assoc in B. rewrite <- He in B. apply Qcle_antisym; assumption. }
    cbn [NF]. rewrite (IH t i u), (IH t (S i) u).
    + ring.
    + intros j Hj. replace (S i + j)%nat with (i + S j)%nat by lia.
      replace (S i + S j)%nat with (i + S (S j))%nat by lia. apply Hs. lia.
    + replace (S i + q + 1)%nat with (i + (S q + 1))%nat by lia.
      replace (S i) with (i + 1)%nat by lia. rewrite !Hall by lia. reflexivity.
    + intros j Hj. apply Hs. lia.
    + replace (i + q + 1)%nat with (i + (q + 1))%nat by lia. rewrite Hall by lia. reflexivity.
Qed.

(* ------------------------------------------------------------------ *)
(* degree 0: splitting a span at an inserted knot *)
Definition ind (a b last x : Qc) : Qc :=
  if (qleb a x && qltb x b) || (qeqb x last && qltb a b && qeqb b last) then 1 else 0.

Lemma NF0_ind t last i x : NF t last 0 i x = ind (t i) (t (S i)) last x.
Proof. reflexivity. Qed.

Lemma ind_empty a last x : ind a a last x = 0.
Proof.
  unfold ind.
  replace (qltb a a) with false by (symmetry; apply qltb_false_iff; apply Qcle_refl).
  rewrite andb_false_r. cbn [andb orb].
  destruct (qleb a x) eqn:E1; [|reflexivity].
  destruct (qltb x a) eqn:E2; [|reflexivity].
  apply qleb_iff in E1. apply qltb_iff in E2. exfalso. qo.
Qed.

Ltac bcase b :=
  let E := fresh "E" in
  lazymatch b with
  | qeqb ?x ?y =>
      destruct b eqn:E;
      [ apply qeqb_iff in E
      | assert (x <> y) by (let H := fresh in intro H; apply qeqb_iff in H; congruence) ]
  | qleb _ _ => destruct b eqn:E; [apply qleb_iff in E | apply qleb_false_iff in E]
  | qltb _ _ => destruct b eqn:E; [apply qltb_iff in E | apply qltb_false_iff in E]
  end.

Lemma ind_split_strict a b c last x :
  a < b -> b < c -> c <= last -> ind a c last x = ind a b last x + ind b c last x.
Proof.
  intros Hab Hbc Hcl. unfold ind.
  replace (qltb a c) with true by (symmetry; apply qltb_iff; qo).
  replace (qltb a b) with true by (symmetry; apply qltb_iff; qo).
  replace (qltb b c) with true by (symmetry; apply qltb_iff; qo).
  replace (qeqb b last) with false.
  2:{ symmetry. destruct (qeqb b last) eqn:E; [|reflexivity]. apply qeqb_iff in E. exfalso. qo. }
  rewrite !andb_true_r, !andb_false_r, !orb_false_r.
  bcase (qleb a x); bcase (qltb x c); bcase (qeqb x last); bcase (qeqb c last);
  bcase (qltb x b); bcase (qleb b x); cbn [andb orb];
  try (exfalso; qo); try ring.
Qed.

Lemma ind_split a b c last x :
  a <= b -> b <= c -> c <= last ->
  ind a c last x = (b - a) / (b - a) * ind a b last x + (c - b) / (c - b) * ind b c last x.
Proof.
  intros Hab Hbc Hcl.
  destruct (Qc_eq_dec a b) as [->|Nab].
  - rewrite ind_empty.
    destruct (Qc_eq_dec b c) as [->|Nbc].
    + rewrite ind_empty. ring.
    + rewrite Qcmult_0_r. field. apply Qcsub_neq0. congruence.
  - destruct (Qc_eq_dec b c) as [->|Nbc].
    + rewrite ind_empty. rewrite Qcmult_0_r. field. apply Qcsub_neq0. congruence.
    + rewrite (ind_split_strict a b c) by (try assumption; qo).
      field. split; apply Qcsub_neq0; congruence.
Qed.

(* ------------------------------------------------------------------ *)
(* Boehm's identity, local form: s_0 <= ... <= s_{p+2}; removing the interior knot s_m
   (1 <= m <= p+1) gives the coarse B-spline, which is the stated combination of the
   two fine ones.  Division by zero is 0 as in the reference; the identity holds
   nevertheless because the affected B-splines vanish identically. *)
Definition remove_at (s : nat -> Qc) (m : nat) : nat -> Qc :=
  fun j => if (j <? m)%nat then s j else s (S j).

Lemma remove_at_lt s m j : (j < m)%nat -> remove_at s m j = s j.
Proof. intros H. unfold remove_at. apply Nat.ltb_lt in H. rewrite H. reflexivity. Qed.
Lemma remove_at_ge s m j : (m <= j)%nat -> remove_at s m j = s (S j).
Proof. intros H. unfold remove_at. apply Nat.ltb_ge in H. rewrite H. reflexivity. Qed.

Lemma mono_chain (s : nat -> Qc) n :
  (forall j, (j < n)%nat -> s j <= s (S j)) -> forall a b, (a <= b)%nat -> (b <= n)%nat -> s a <= s b.
Proof.
  intros Hs a b Hab Hb. induction b as [|b IHb].
  - replace a with 0%nat by lia. apply Qcle_refl.
  - destruct (Nat.eq_dec a (S b)) as [->|Hn]; [apply Qcle_refl|].
    eapply Qcle_trans; [apply IHb; lia|]. apply Hs. lia.
Qed.

Lemma NF_S t last q i x :
  NF t last (S q) i x =
    (x - t i) / (t (S (i + q)) - t i) * NF t last q i x
    + (t (S (S (i + q))) - x) / (t (S (S (i + q))) - t (S i)) * NF t last q (S i) x.
Proof.
  cbn [NF]. replace (i + S q)%nat with (S (i + q)) by lia.
  replace (S (i + q) + 1)%nat with (S (S (i + q))) by lia.
  replace (i + 1)%nat with (S i) by lia. reflexivity.
Qed.

Lemma boehm_local last x : forall p s m,
  (forall j, (j <= S p)%nat -> s j <= s (S j)) ->
  (forall j, (j <= S (S p))%nat -> s j <= last) ->
  (1 <= m <= S p)%nat ->
  NF (remove_at s m) last p 0 x =
    (s m - s 0%nat) / (s (S p) - s 0%nat) * NF s last p 0 x
    + (s (S (S p)) - s m) / (s (S (S p)) - s 1%nat) * NF s last p 1 x.
Proof.
  induction p as [|q IH]; intros s m Hs Hl Hm.
  - assert (m = 1%nat) by lia. subst m. rewrite !NF0_ind.
    rewrite (remove_at_lt s 1 0) by lia. rewrite (remove_at_ge s 1 1) by lia.
    apply ind_split; [apply Hs; lia | apply Hs; lia | apply Hl; lia].
  - pose proof (mono_chain s (S (S (S q))) ltac:(intros; apply Hs; lia)) as Hmono.
    set (s1 := fun j => s (S j)).
    assert (Hn1 : NF s1 last q 0 x = NF s last q 1 x) by (apply NF_ext; intros; reflexivity).
    assert (Hn2 : NF s1 last q 1 x = NF s last q 2 x) by (apply NF_ext; intros; reflexivity).
    assert (Z0 : s 0%nat = s (S q) -> NF s last q 0 x = 0).
    { intro E. apply NF_zero.
      - intros j Hj. cbn [Nat.add]. apply Hs. lia.
      - cbn [Nat.add]. replace (q + 1)%nat with (S q) by lia. exact E. }
    assert (Z1 : s 1%nat = s (S (S q)) -> NF s last q 1 x = 0).
    { intro E. apply NF_zero.
      - intros j Hj. cbn [Nat.add]. apply Hs. lia.
      - cbn [Nat.add]. replace (q + 1)%nat with (S q) by lia. exact E. }
    assert (Z2 : s 2%nat = s (S (S (S q))) -> NF s last q 2 x = 0).
    { intro E. apply NF_zero.
      - intros j Hj. cbn [Nat.add]. apply Hs. lia.
      - cbn [Nat.add]. replace (q + 1)%nat with (S q) by lia. exact E. }
    (* the two degree-q pieces of the coarse function *)
    assert (L0 : (m <= S q)%nat -> NF (remove_at s m) last q 0 x =
              (s m - s 0%nat) / (s (S q) - s 0%nat) * NF s last q 0 x
              + (s (S (S q)) - s m) / (s (S (S q)) - s 1%nat) * NF s last q 1 x).
    { intro Hle. apply IH; [intros; apply Hs; lia | intros; apply Hl; lia | lia]. }
    assert (L0' : m = S (S q) -> NF (remove_at s m) last q 0 x = NF s last q 0 x).
    { intro E. apply NF_ext. intros j Hj. cbn [Nat.add]. apply remove_at_lt. lia. }
    assert (L1 : (2 <= m)%nat -> NF (remove_at s m) last q 1 x =
              (s m - s 1%nat) / (s (S (S q)) - s 1%nat) * NF s last q 1 x
              + (s (S (S (S q))) - s m) / (s (S (S (S q))) - s 2%nat) * NF s last q 2 x).
    { intro Hge.
      assert (E : NF (remove_at s m) last q 1 x = NF (remove_at s1 (m - 1)) last q 0 x).
      { apply NF_ext. intros j Hj. cbn [Nat.add]. unfold remove_at, s1.
        destruct (Nat.ltb_spec (S j) m), (Nat.ltb_spec j (m - 1)); try lia; reflexivity. }
      rewrite E. rewrite (IH s1 (m - 1)%nat).
      - rewrite Hn1, Hn2. unfold s1. replace (S (m - 1)) with m by lia. reflexivity.
      - intros j Hj. unfold s1. apply Hs. lia.
      - intros j Hj. unfold s1. apply Hl. lia.
      - lia. }
    assert (L1' : m = 1%nat -> NF (remove_at s m) last q 1 x = NF s last q 2 x).
    { intro E. apply NF_ext. intros j Hj. cbn [Nat.add]. rewrite remove_at_ge by lia. reflexivity. }
    rewrite !NF_S. cbn [Nat.add].
    rewrite (remove_at_lt s m 0) by lia.
    rewrite (remove_at_ge s m (S (S q))) by lia.
    pose proof (Hmono 0 1 ltac:(lia) ltac:(lia))%nat as M01.
    pose proof (Hmono 1 2 ltac:(lia) ltac:(lia))%nat as M12.
    pose proof (Hmono 1 (S (S q)) ltac:(lia) ltac:(lia))%nat as M1p.
    pose proof (Hmono (S (S q)) (S (S (S q))) ltac:(lia) ltac:(lia))%nat as Mpp.
    pose proof (Hmono (S q) (S (S q)) ltac:(lia) ltac:(lia))%nat as Mqp.
    pose proof (Hmono 0 (S q) ltac:(lia) ltac:(lia))%nat as M0q.
    pose proof (Hmono 2 (S (S (S q))) ltac:(lia) ltac:(lia))%nat as M2e.
    destruct (Nat.eq_dec m (S (S q))) as [Em|Em]; destruct (Nat.eq_dec m 1) as [E1|E1]; try lia.
    + (* m = p+1: the last knot of the first fine function is the new one *)
      rewrite (remove_at_lt s m (S q)) by lia. rewrite (remove_at_lt s m 1) by lia.
      rewrite (L0' Em), (L1 ltac:(lia)). subst m.
      destruct (Qc_eq_dec (s 1%nat) (s (S (S q)))) as [A|A].
      * rewrite (Z1 A).
        destruct (Qc_eq_dec (s 0%nat) (s (S (S q)))) as [B|B].
        -- rewrite (Z0 ltac:(qo)). ring.
        -- unfold Qcdiv. generalize (/ (s (S q) - s 0%nat)) (/ (s (S (S (S q))) - s 2%nat))
                                    (/ (s (S (S (S q))) - s 1%nat)) (/ (s (S (S q)) - s 1%nat)).
           intros. field. apply Qcsub_neq0. congruence.
      * unfold Qcdiv. generalize (/ (s (S q) - s 0%nat)) (/ (s (S (S (S q))) - s 2%nat)).
        intros. field. repeat split; apply Qcsub_neq0; intro; qo.
    + (* m = 1: the first knot of the second fine function is the new one *)
      rewrite (remove_at_ge s m (S q)) by lia. rewrite (remove_at_ge s m 1) by lia.
      rewrite (L0 ltac:(lia)), (L1' E1). subst m.
      destruct (Qc_eq_dec (s 1%nat) (s (S (S q)))) as [A|A].
      * rewrite (Z1 A).
        destruct (Qc_eq_dec (s 1%nat) (s (S (S (S q))))) as [B|B].
        -- rewrite (Z2 ltac:(qo)). ring.
        -- unfold Qcdiv. generalize (/ (s (S q) - s 0%nat)) (/ (s (S (S (S q))) - s 2%nat))
                                    (/ (s (S (S q)) - s 0%nat)) (/ (s (S (S q)) - s 1%nat)).
           intros. field. apply Qcsub_neq0. congruence.
      * unfold Qcdiv. generalize (/ (s (S q) - s 0%nat)) (/ (s (S (S (S q))) - s 2%nat)).
        intros. field. repeat split; apply Qcsub_neq0; intro; qo.
    + (* interior *)
      rewrite (remove_at_ge s m (S q)) by lia. rewrite (remove_at_lt s m 1) by lia.
      rewrite (L0 ltac:(lia)), (L1 ltac:(lia)).
      destruct (Qc_eq_dec (s 1%nat) (s (S (S q)))) as [A|A].
      * rewrite (Z1 A). ring.
      * unfold Qcdiv. generalize (/ (s (S q) - s 0%nat)) (/ (s (S (S (S q))) - s 2%nat)).
        intros. field. repeat split; apply Qcsub_neq0; intro; qo.
Qed.
