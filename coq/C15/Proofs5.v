(* C15 -- utils.kron_partial with restrict=True (final round). *)
From Coq Require Import ZArith List Bool Lia Arith.
From Verif.C15 Require Import Model Spec Proofs Proofs3.
Import ListNotations.
Open Scope Z_scope.

Lemma dense_entry_app : forall a b r c, dense_entry (a ++ b) r c = dense_entry a r c + dense_entry b r c.
Proof. induction a as [|[[i j] v] a IH]; intros; simpl; auto. rewrite IH. lia. Qed.

(* one row block of the restricted result: the columns of row r0, tagged with the new row k *)
Lemma dense_entry_row_block : forall (v : Z -> Z) KP r0 k q c,
  dense_entry (map (fun J => ((k, J), v J)) (map snd (filter (fun e => fst e =? r0) KP))) q c
  = if k =? q then occ KP r0 c * v c else 0.
Proof.
  induction KP as [|[i j] KP IH]; intros r0 k q c.
  - simpl. destruct (k =? q); lia.
  - cbn [filter fst]. destruct (Z.eqb_spec i r0).
    + cbn [map snd dense_entry occ]. rewrite IH. subst i. rewrite Z.eqb_refl.
      destruct (Z.eqb_spec k q), (Z.eqb_spec j c); cbn [andb]; subst; ring.
    + rewrite IH. cbn [occ]. destruct (Z.eqb_spec i r0); [contradiction|]. cbn [andb].
      destruct (k =? q); ring.
Qed.

Lemma rows_loop_restrict : forall (val : Z -> Z -> Z) bs bidx rows k q c,
  wf_structure bs bidx -> dims_pos (rowdims bs) ->
  Forall (fun r => 0 <= r < fst (shape bs)) rows -> k <= q ->
  dense_entry (map (fun t : Z * Z * Z => let '(r, c, k) := t in ((k, c), val r c)) (rows_loop bs bidx k rows)) q c
  = match nth_error rows (Z.to_nat (q - k)) with
    | Some r => occ (kron_pattern bs bidx) r c * val r c
    | None => 0
    end.
Proof.
  intros val bs bidx rows k q c Hwf Hp HF. revert k.
  induction HF as [|r rows Hr HF IH]; intros k Hk.
  - simpl. destruct (Z.to_nat (q - k)); reflexivity.
  - cbn [rows_loop]. rewrite map_app, dense_entry_app. rewrite map_map.
    rewrite rows_J_spec by auto.
    rewrite (dense_entry_row_block (fun J => val r J)).
    destruct (Z.eqb_spec k q).
    + subst q. rewrite Z.sub_diag. simpl nth_error.
      (* the remaining rows carry tags > k *)
      assert (T : forall rows' k', k < k' ->
        dense_entry (map (fun t : Z * Z * Z => let '(r, c, k) := t in ((k, c), val r c)) (rows_loop bs bidx k' rows')) k c = 0).
      { induction rows' as [|r' rows' IH']; intros k' Hk'; simpl; auto.
        rewrite map_app, dense_entry_app, IH' by lia. rewrite map_map.
        assert (Z0 : forall L, dense_entry (map (fun J : Z => ((k', J), val r' J)) L) k c = 0).
        { induction L as [|J L IHL]; simpl; auto. rewrite IHL.
          destruct (Z.eqb_spec k' k); [lia|]. reflexivity. }
        rewrite Z0. lia. }
      clear IH. rewrite T by lia. lia.
    + rewrite IH by lia.
      replace (Z.to_nat (q - k)) with (S (Z.to_nat (q - (k + 1)))) by lia. simpl nth_error. lia.
Qed.

(* utils.kron_partial(As, rows, restrict=True): row q of the result is row rows[q] of the
   dense Kronecker product -- any list of valid rows (unsorted, repeated) *)
Lemma kron_partial_restrict_l : forall As rows ts, Forall rect As ->
  kron_partial As rows true = Some ts ->
  forall q r c, nth_error rows q = Some r -> 0 <= c < snd (shape (map mat_shape As)) ->
  dense_entry ts (Z.of_nat q) c = kron_rec As r c.
Proof.
  intros As rows ts HR H q r c Hq Hc. unfold kron_partial in H.
  destruct (nonzeros_for_rows (map mat_shape As) (map pattern_of As) rows) as [l|] eqn:E; [|discriminate].
  inversion H; subst ts. clear H. rewrite canon_dense.
  pose proof (wf_from_matrices As HR) as Hwf. destruct (shapes_pos As HR) as [P1 P2].
  unfold nonzeros_for_rows in E.
  destruct (forallb (in_range (fst (shape (map mat_shape As)))) rows) eqn:Fb; [|discriminate].
  inversion E; subst l. clear E.
  assert (HF : Forall (fun r => 0 <= r < fst (shape (map mat_shape As))) rows).
  { rewrite forallb_forall in Fb. apply Forall_forall. intros x Hx. apply in_range_spec. auto. }
  rewrite (rows_loop_restrict (fun r c => kron_pos As r c)) by (auto; lia).
  rewrite Z.sub_0_r, Nat2Z.id, Hq.
  assert (Hr : 0 <= r < fst (shape (map mat_shape As))).
  { rewrite Forall_forall in HF. apply HF. eapply nth_error_In; eauto. }
  unfold shape in Hr, Hc. simpl in Hr, Hc.
  rewrite <- (kron_pos_rec As r c) by (auto; lia).
  destruct (Z.eq_dec (kron_pos As r c) 0) as [Z0|NZ]; [rewrite Z0; ring|].
  rewrite occ_NoDup_in; [ring| |].
  - apply kron_pattern_NoDup; auto. apply Forall_forall. intros b Hb.
    apply in_map_iff in Hb. destruct Hb as (A & <- & _). apply pattern_of_NoDup.
  - apply kron_pattern_mem_l; auto. unfold kron_nonzero, shape. simpl. repeat split; try lia.
    apply prod_entries_nonzero; auto; apply from_seq_valid_l; auto.
Qed.
