(* C20 -- fault histories over restarts: external damage of every file in every size class,
   scripts/clear-cache.py, interleaved with arbitrary concurrent runs and crashes.
   Definitions + lemmas (new file of the last round; Model.v/Proofs.v are unchanged). *)
From Coq Require Import List Arith Bool Lia.
From Verif.C20 Require Import Model Proofs.
Import ListNotations.

(* no process is in the middle of a request (between two sessions) *)
Definition quiescent (st : state) : Prop :=
  forall p q, procs st p = Some q -> is_done (ppc q) = true.

(* scripts/clear-cache.py: shutil.rmtree(MODDIR) -- every artefact, every left-over private build
   directory and MODDIR itself are gone *)
Definition clear_cache (st : state) : state :=
  mkstate (fun _ => Absent) (fun _ => clock st) (S (clock st)) (procs st).

Inductive fault :=
| FDmg (r : role) (k : option sizeclass)   (* Model.damage_all: every file of role r, under final names and in
                                              every left-over build directory: truncated to class k / garbage /
                                              deleted (None) *)
| FClear.                                   (* clear-cache.py *)

Definition apply_fault (st : state) (f : fault) : state :=
  match f with FDmg r k => damage_all st r k | FClear => clear_cache st end.

(* the only fault excluded: a finished .so cut to a size class on which dlopen kills the interpreter *)
Definition safe_fault (orc : oracle) (f : fault) : Prop :=
  match f with FDmg So (Some k) => orc k <> Crash | _ => True end.

(* a history: sessions (arbitrary schedules of any number of processes with kills) alternating with
   faults that hit the directory while nobody is compiling *)
Inductive hitem := HRun (tr : list label) | HFault (f : fault).

Inductive hist (orc : oracle) : state -> list hitem -> state -> Prop :=
| h_nil : forall st, hist orc st [] st
| h_run : forall st tr h st', hist orc (run New orc tr st) h st' -> hist orc st (HRun tr :: h) st'
| h_fault : forall st f h st', quiescent st -> safe_fault orc f ->
            hist orc (apply_fault st f) h st' -> hist orc st (HFault f :: h) st'.

Section Faults.
Variable orc : oracle.

Lemma quiescent_proc_inv st st' p q :
  quiescent st -> procs st p = Some q -> proc_inv st p q -> proc_inv st' p q.
Proof.
  intros HQ HP HI. specialize (HQ _ _ HP). unfold proc_inv in *.
  destruct (ppc q) as [| | | | |r w| | | |o]; try discriminate. exact HI.
Qed.

Lemma quiescent_dir_inv st st' p q :
  quiescent st -> procs st p = Some q -> dir_inv st' (ppc q).
Proof.
  intros HQ HP. specialize (HQ _ _ HP). destruct (ppc q) as [| | | | |r w| | | |o]; try discriminate. exact I.
Qed.

Lemma damage_absent k : damage k Absent = Absent.
Proof. destruct k; reflexivity. Qed.

Lemma fault_preserves_inv st f :
  Inv orc st -> quiescent st -> safe_fault orc f -> Inv orc (apply_fault st f).
Proof.
  intros [I0 I1 I2 I3] HQ HS. destruct f as [r k|]; simpl.
  - split; simpl.
    + intros p q HP. apply (quiescent_dir_inv st _ p q HQ HP).
    + intros n. specialize (I1 n).
      destruct r; auto.
      destruct k as [k|]; simpl; auto.
      destruct (files st (Final So n)) as [|k' c|c]; simpl in *; auto.
      subst c. destruct (orc k) eqn:EO; auto. exfalso. apply HS. reflexivity.
    + intros p HP r0. rewrite (I2 p HP r0). destruct (role_eqb r0 r); auto. apply damage_absent.
    + intros p q HP. apply (quiescent_proc_inv st _ p q HQ HP). apply I3; auto.
  - split; simpl; auto.
    + intros p q HP. apply (quiescent_dir_inv st _ p q HQ HP).
    + intros p q HP. apply (quiescent_proc_inv st _ p q HQ HP). apply I3; auto.
Qed.

Lemma inv_hist h : forall st st', Inv orc st -> hist orc st h st' -> Inv orc st'.
Proof.
  induction h as [|i h IH]; intros st st' HI HH.
  - inversion HH; subst; auto.
  - inversion HH as [|s0 tr h0 s1 HR|s0 f h0 s1 HQ HS HR]; subst.
    + apply (IH _ _ (inv_run orc tr st HI) HR).
    + apply (IH _ _ (fault_preserves_inv st f HI HQ HS) HR).
Qed.

(* recovery after every fault history *)
Lemma recovery_after_faults_l h st p n :
  hist orc init h st -> procs st p = None ->
  outcome_of (solo New orc FUEL (step New orc st (Spawn p n)) p) p = Some (Ok n).
Proof.
  intros HH HN. apply (recovery_l orc st [] p n); auto.
  apply (inv_hist h init st (inv_init orc) HH).
Qed.

(* ... and in such a history every process that ever finished un-killed had the right assembler, and
   every final entry is absent, the right finished .so, or a damaged one that dlopen rejects/loads *)
Lemma race_safety_faults_l h st p q o :
  hist orc init h st -> procs st p = Some q -> ppc q = PDone o -> o = Ok (pform q) \/ o = Killed.
Proof.
  intros HH HP HD. apply (race_safety_l orc st [] p q o); auto.
  apply (inv_hist h init st (inv_init orc) HH).
Qed.

(* every directory: any content whatsoever of the .pyx/.c/.o files under final names (left-overs of the old
   protocol), of the build directories of dead processes, with or without MODDIR itself *)
Definition settled (st : state) : Prop :=
  forall p q, procs st p = Some q -> ppc q = PDone Killed \/ ppc q = PDone (Ok (pform q)).

Lemma inv_of_directory st :
  settled st ->
  (forall p, procs st p = None -> forall r, files st (Tmp p r) = Absent) ->
  (forall n, final_ok orc n (files st (Final So n))) ->
  Inv orc st.
Proof.
  intros HS HT HF. split; auto.
  - intros p q HP. destruct (HS _ _ HP) as [-> | ->]; exact I.
  - intros p q HP. unfold proc_inv. destruct (HS _ _ HP) as [-> | ->]; auto.
Qed.

Lemma recovery_every_directory_l st p n :
  settled st ->
  (forall p, procs st p = None -> forall r, files st (Tmp p r) = Absent) ->
  (forall n, final_ok orc n (files st (Final So n))) ->
  procs st p = None ->
  outcome_of (solo New orc FUEL (step New orc st (Spawn p n)) p) p = Some (Ok n).
Proof.
  intros HS HT HF HN. apply (recovery_l orc st [] p n); auto. apply inv_of_directory; auto.
Qed.

(* sharpness: the excluded fault does kill the next request (the open finding dmg-so-Header) *)
Lemma solo_done pr fuel : forall st p q o,
  procs st p = Some q -> ppc q = PDone o -> solo pr orc fuel st p = st.
Proof.
  induction fuel; simpl; intros st p q o HP HD; auto.
  rewrite HP. unfold step_proc. rewrite HD. eapply IHfuel; eauto.
Qed.

Lemma solo_S pr f st p : solo pr orc (S f) st p = solo pr orc f (step pr orc st (Step p)) p.
Proof. reflexivity. Qed.

Lemma crash_class_kills_l st p n k c :
  procs st p = None -> files st (Final So n) = Partial k c -> orc k = Crash ->
  outcome_of (solo New orc FUEL (step New orc st (Spawn p n)) p) p = Some Death.
Proof.
  intros HN HF HC.
  set (st1 := setproc st p (mkproc n PMkdir n)).
  assert (E1 : step New orc st (Spawn p n) = st1).
  { unfold step. rewrite HN. reflexivity. }
  assert (H1 : procs st1 p = Some (mkproc n PMkdir n)).
  { unfold st1. rewrite procs_setproc, Nat.eqb_refl. reflexivity. }
  set (st2 := goto (write st1 CacheDir (Complete 0)) p (mkproc n PMkdir n) PImport).
  assert (E2 : step New orc st1 (Step p) = st2).
  { unfold step. rewrite H1. reflexivity. }
  assert (H2 : procs st2 p = Some (mkproc n PImport n)).
  { unfold st2, goto. rewrite procs_setproc, Nat.eqb_refl. reflexivity. }
  assert (F2 : files st2 (Final So n) = Partial k c).
  { unfold st2, goto, write, setproc; simpl. rewrite upd_other by congruence. unfold st1; simpl. auto. }
  set (st3 := goto st2 p (mkproc n PImport n) (PDone Death)).
  assert (E3 : step New orc st2 (Step p) = st3).
  { unfold step. rewrite H2. unfold step_proc. simpl ppc. simpl pform. cbv beta iota.
    rewrite F2. unfold load. rewrite HC. reflexivity. }
  assert (H3 : procs st3 p = Some (mkproc n (PDone Death) n)).
  { unfold st3, goto. rewrite procs_setproc, Nat.eqb_refl. reflexivity. }
  rewrite E1. change FUEL with (S (S 26)).
  rewrite solo_S, E2. rewrite solo_S, E3.
  rewrite (solo_done New 26 st3 p _ Death H3 eq_refl).
  unfold outcome_of. rewrite H3. reflexivity.
Qed.

(* clear-cache.py while a process compiles: that process fails (mkdtemp: MODDIR is gone) *)
Definition tr_before_mkdtemp : list label := [Spawn 0 0; Step 0; Step 0].
Lemma clear_during_build_refuted_l :
  ~ quiescent (run New orc tr_before_mkdtemp init) /\
  outcome_of (step New orc (clear_cache (run New orc tr_before_mkdtemp init)) (Step 0)) 0 = Some Exn.
Proof.
  split.
  - intros HQ. assert (H : is_done (ppc (mkproc 0 PMkdtemp 0)) = true) by (apply (HQ 0); vm_compute; reflexivity).
    discriminate.
  - vm_compute. reflexivity.
Qed.
End Faults.
