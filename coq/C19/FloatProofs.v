(* C19 -- the bounded binary64 theorem assembled from FloatGrid1..4 and lifted over p, mult;
   the refutation of the unrepaired (np.arange) formula. *)
From Coq Require Import PrimFloat List Arith Bool Lia.
From Verif.lib Require Import NpCore NpF.
From Verif.C19 Require Import FloatGrid1 FloatGrid2 FloatGrid3 FloatGrid4.
Import ListNotations.
Open Scope float_scope.

Definition grid : list (float * float) := grid1 ++ grid2 ++ grid3 ++ grid4.

Lemma grid_lookup nmax g : grid_check nmax g = true ->
  forall a b n, In (a, b) g -> (1 <= n <= nmax)%nat -> bp_ok a b n = true.
Proof.
  intros G a b n Hg Hn. unfold grid_check in G. rewrite forallb_forall in G.
  specialize (G _ Hg). rewrite forallb_forall in G. apply (G n). apply in_seq. lia.
Qed.

Lemma grid_bp_ok a b n : In (a, b) grid -> (1 <= n <= 2000)%nat -> bp_ok a b n = true.
Proof.
  intros Hg Hn. unfold grid in Hg. repeat (apply in_app_or in Hg; destruct Hg as [Hg|Hg]).
  - exact (grid_lookup _ _ grid1_ok a b n Hg Hn).
  - exact (grid_lookup _ _ grid2_ok a b n Hg Hn).
  - exact (grid_lookup _ _ grid3_ok a b n Hg Hn).
  - exact (grid_lookup _ _ grid4_ok a b n Hg Hn).
Qed.

Lemma make_knots_float_bounded_l a b n p mult :
  In (a, b) grid -> (1 <= n <= 2000)%nat -> (1 <= mult)%nat ->
  let kv := make_knots_f p a b n mult in
  sorted_f kv = true /\ mesh_f kv = bp_f a b n /\ length (mesh_f kv) = (n + 1)%nat /\
  strict_f (mesh_f kv) = true /\
  length kv = (2 * (p + 1) + mult * (n - 1))%nat /\ last kv a = b /\ nth 0 kv b = a.
Proof.
  intros Hg Hn Hm. apply make_knots_f_lift; [lia|exact Hm|]. apply grid_bp_ok; assumption.
Qed.

(* the formula of the unrepaired source (np.arange with a fractional step) yields one
   span too many *)
Lemma make_knots_float_old_refuted_l :
  exists p a b n mult, (1 <= n)%nat /\ (1 <= mult)%nat /\
    length (mesh_f (make_knots_old_f p a b n mult)) <> (n + 1)%nat.
Proof.
  exists 2%nat, 0, 1, 49%nat, 1%nat. split; [lia|split; [lia|]]. vm_compute. discriminate.
Qed.

(* ... on [0,1] for exactly these n <= 300 (computed) *)
Lemma make_knots_float_old_bad_n :
  filter (fun n => negb (length (mesh_f (make_knots_old_f 2 0 1 n 1)) =? n + 1)%nat) (seq 1 300)
  = [49; 98; 103; 107; 196; 197; 206; 214; 237; 239; 249; 253]%nat.
Proof. vm_compute. reflexivity. Qed.
