(* C16 -- non-vacuity for Props3.v: concrete non-trivial inputs over the Gaussian integers and Qc. *)
From Coq Require Import List Arith ZArith QArith Qcanon.
From Verif.C16 Require Import Model Model2 Model3 Proofs Proofs2 Cases Cases3.
Import ListNotations.

(* the Gaussian integers with conjugation meet the hypotheses of the adjoint theorems *)
Example g_conj0 : gconj gO = gO. Proof. reflexivity. Qed.
Example g_conj1 : gconj (1, 0)%Z = (1, 0)%Z. Proof. reflexivity. Qed.
Example g_conj_add : forall a b, gconj (gadd a b) = gadd (gconj a) (gconj b).
Proof. intros [a1 a2] [b1 b2]. unfold gconj, gadd; simpl. f_equal. ring. Qed.
Example g_conj_mul : forall a b, gconj (gmul a b) = gmul (gconj a) (gconj b).
Proof. intros [a1 a2] [b1 b2]. unfold gconj, gmul; simpl. f_equal; ring. Qed.
Example g_conj_invol : forall a, gconj (gconj a) = a.
Proof. intros [a1 a2]. unfold gconj; simpl. f_equal. ring. Qed.

(* kron_adjoint: a 2x1 complex factor and a 1x2 abstract one; the .H operator applied to a vector *)
Definition ex3_ops : list (operand G) := [GD 2 1 [(1, 2); (0, -1)]%Z; GA 1 2 [(2, 1); (1, 1)]%Z].
Example ex3_kron_H :
  aat G (kronecker_operator_H G gO gadd gmul gconj ex3_ops (garr [2]%nat [(1, 1); (2, 0)]%Z)) [1]%nat =
  sumn G gO gadd 2 (fun j => gmul (ment G (mH G gconj (kron_dense G (1, 0)%Z gmul (map (omat G) ex3_ops))) 1 j)
                                  (aat G (garr [2]%nat [(1, 1); (2, 0)]%Z) [j])) /\
  geqb (aat G (kronecker_operator_H G gO gadd gmul gconj ex3_ops (garr [2]%nat [(1, 1); (2, 0)]%Z)) [1]%nat) gO = false.
Proof. vm_compute. auto. Qed.

(* block_operator_apply_spec: an all-null 2x2 grid takes the NullOperator branch *)
Example ex3_null_grid : block_operator Z [[None; None]; [None; None]] [1; 2]%nat [2; 1]%nat = [].
Proof. reflexivity. Qed.

(* apply_tprod_placeholders: a placeholder between two operands, one trailing axis *)
Example ex3_fill :
  fill_eye Z 0%Z 1%Z [Some (D 2 3 [1;2;3;4;5;6]%Z); None] [3; 2]%nat =
  [Some (D 2 3 [1;2;3;4;5;6]%Z); Some (mkop Z Dense (mkmat Z 2 2 (fun i j => if Nat.eqb j i then 1%Z else 0%Z)))].
Proof. reflexivity. Qed.

(* fastdiag_apply_spec over Qc: U = [[0, 1/2], [1, 0]], dinv = (1/3, 2) *)
Example ex3_fd :
  all3 close (q_to_list (fastdiag_apply Qc qO Qcplus Qcmult [QD 2 2 [q 0 0; q 1 1; q 1 0; q 0 0]] (qvec [Q2Qc (1 # 3); q 2 0])
                            (qarr [2]%nat [q 4 0; q 1 0]))) [q 2 0; Q2Qc (1 # 3)] [qO; qO] = true.
Proof. vm_compute. reflexivity. Qed.
