(* C16 -- property theorems only.  Each is closed by [exact] of a lemma of Proofs.v and
   followed by Print Assumptions.  All statements hold in every commutative ring
   (R, 0, 1, +, *, -, opp) -- in particular Z (used by the correspondence run), Q and the reals.

   Conjuncts of the property that are NOT theorems here (they rest on the exact
   correspondence run and the dense oracle only) are listed at the end. *)
From Coq Require Import List Arith Bool Ring.
From Verif.C16 Require Import Model Model2 Proofs Proofs2 Proofs3 Proofs4.
Import ListNotations.

Section Props.
Variable R : Type.
Variables (rO rI : R) (radd rmul rsub : R -> R -> R) (ropp : R -> R).
Variable Rth : ring_theory rO rI radd rmul rsub ropp eq.

(* apply_tprod (tensor.py:97-128): for every number of operands, every storage kind
   (ndarray: tensordot; sparse/LinearOperator: _modek_tensordot_sparse), None placeholders,
   rectangular operands and any number of trailing axes, the loop computes
   Y[a_1..a_n, t] = sum_{j_1..j_n} prod_k B_k[a_k, j_k] X[j_1..j_n, t]   (tprod_spec),
   and the result has shape (rows of the operands / unchanged for None) ++ trailing. *)
Theorem apply_tprod_spec : forall ops (X : arr R) sS sT,
  ashape R X = sS ++ sT -> conf R ops sS ->
  ashape R (apply_tprod R rO radd rmul ops X) = out_shape R ops sS ++ sT /\
  forall a t, inr a (out_shape R ops sS) -> inr t sT ->
    aat R (apply_tprod R rO radd rmul ops X) (a ++ t) = tprod_spec R rO radd rmul ops (aat R X) (a ++ t).
Proof. exact (apply_tprod_spec_l R rO radd rmul). Qed.

(* the core of _apply_kronecker_dense (kronecker.py:68) on the reshaped argument is the
   Kronecker action in multi-index form, for any number of rectangular operands of any kind and
   a trailing right-hand-side axis *)
Theorem kron_core_spec : forall (ops : list (operand R)) (X : arr R) sT,
  ashape R X = map (fun o => mcols R (omat R o)) ops ++ sT ->
  ashape R (apply_tprod R rO radd rmul (map Some ops) X) = map (fun o => mrows R (omat R o)) ops ++ sT /\
  forall a t, inr a (map (fun o => mrows R (omat R o)) ops) -> inr t sT ->
    aat R (apply_tprod R rO radd rmul (map Some ops) X) (a ++ t) =
    tprod_spec R rO radd rmul (map Some ops) (aat R X) (a ++ t).
Proof. exact (kron_dense_core_l R rO radd rmul). Qed.

(* _modek_tensordot_sparse (tensor.py:48-64): roll axis k to the front, matricize, apply,
   reshape back = contraction of axis k with the operator, new axis first *)
Theorem modek_sparse_spec : forall B k (X : arr R) a rest,
  inr rest (remove_at k (ashape R X)) ->
  aat R (modek_tensordot_sparse R rO radd rmul B k X) (a :: rest) =
  sumn R rO radd (mcols R B) (fun j => rmul (ment R B a j) (aat R X (insert_at k j rest))).
Proof. exact (modek_sparse_at R rO radd rmul). Qed.

(* BaseBlockOperator._matvec/_matmat column (operators.py:96-108): accumulating
   y[ran_out] += op . x[ran_in] over any list of placed blocks (any overlaps, any order)
   is multiplication with the sum of the placed blocks *)
Theorem block_spec : forall M N bl x r,
  (forall b, In b bl -> pci R b + mcols R (pb R b) <= N) ->
  base_block_matvec R rO radd rmul bl x r = mv R rO radd rmul (blocks_dense R rO radd M N bl) x r.
Proof. exact (base_block_spec_l R rO rI radd rmul rsub ropp Rth). Qed.

(* BaseBlockOperator._transpose (operators.py:109-112) denotes the transposed matrix *)
Theorem block_transpose : forall M N bl r c,
  ment R (blocks_dense R rO radd N M (map (placed_T R) bl)) c r = ment R (mT R (blocks_dense R rO radd M N bl)) c r.
Proof. exact (block_transpose_l R rO radd). Qed.

(* BlockDiagonalOperator (operators.py:121-135): _sizes_to_ranges + BaseBlockOperator act like
   scipy.linalg.block_diag of the operands (bd_ent), for any number of rectangular blocks ... *)
Theorem blockdiag_spec : forall ops x r,
  base_block_matvec R rO radd rmul (block_diagonal R ops) x r = mv R rO radd rmul (blockdiag_dense R rO ops) x r.
Proof. exact (blockdiag_spec_l R rO rI radd rmul rsub ropp Rth). Qed.

(* ... and its .T like the transposed block_diag matrix *)
Theorem blockdiag_transpose : forall ops x r,
  base_block_matvec R rO radd rmul (map (placed_T R) (block_diagonal R ops)) x r =
  mv R rO radd rmul (mT R (blockdiag_dense R rO ops)) x r.
Proof. exact (blockdiag_transpose_l R rO rI radd rmul rsub ropp Rth). Qed.

(* DiagonalOperator, IdentityOperator, NullOperator (operators.py:15-57) *)
Theorem diag_spec : forall n d x i, i < n ->
  diagonal_matvec R rmul d x i = mv R rO radd rmul (diag_dense R rO n d) x i.
Proof. exact (diag_spec_l R rO rI radd rmul rsub ropp Rth). Qed.

Theorem diag_symmetric : forall n d i j, ment R (mT R (diag_dense R rO n d)) i j = ment R (diag_dense R rO n d) i j.
Proof. exact (diag_symmetric_l R rO). Qed.

Theorem identity_spec : forall n x i, i < n -> identity_matvec R x i = mv R rO radd rmul (eye R rO rI n) x i.
Proof. exact (identity_spec_l R rO rI radd rmul rsub ropp Rth). Qed.

Theorem null_spec : forall r c x i, null_matvec R rO x i = mv R rO radd rmul (zeros R rO r c) x i.
Proof. exact (null_spec_l R rO rI radd rmul rsub ropp Rth). Qed.

(* SubspaceOperator._matvec (operators.py:206-218), both values of _is_transpose:
   y = sum_j P_j (B_j (P_j^T x)) is multiplication with sum_j P_j B_j P_j^T (resp. B_j^T),
   for every family of prolongations (overlapping, rectangular, any entries) *)
Theorem subspace_spec : forall n tr PB x r,
  (forall pb, In pb PB -> mrows R (fst pb) = n) ->
  subspace_matvec R rO radd rmul tr PB x r = mv R rO radd rmul (subspace_dense R rO radd rmul n tr PB) x r.
Proof. exact (subspace_spec_l R rO rI radd rmul rsub ropp Rth). Qed.

(* ... and the operator with the flag set denotes the transposed matrix (square B_j) *)
Theorem subspace_transpose : forall n PB r c,
  (forall pb, In pb PB -> mcols R (snd pb) = mcols R (fst pb) /\ mrows R (snd pb) = mcols R (fst pb)) ->
  ment R (subspace_dense R rO radd rmul n true PB) r c = ment R (mT R (subspace_dense R rO radd rmul n false PB)) r c.
Proof. exact (subspace_transpose_l R rO rI radd rmul rsub ropp Rth). Qed.

(* CSRRowSlice / CSRRowSubset (utils.py:116-179): the rows r0..r1-1 (resp. the listed rows, in
   the listed order, repetitions allowed) of the matrix the CSR structure denotes, also for
   unsorted and duplicate column indices *)
Theorem rowslice_spec : forall A r0 r1 x i, csr_wf R A ->
  (forall r, r < r1 -> nth (S r) (c_indptr R A) 0 <= length (c_indices R A)) ->
  i < r1 - r0 ->
  csr_rowslice R rO radd rmul A r0 r1 x i = mv R rO radd rmul (csr_dense R rO radd A) x (r0 + i).
Proof. exact (rowslice_spec_l R rO rI radd rmul rsub ropp Rth). Qed.

Theorem rowsubset_spec : forall A rows x i, csr_wf R A ->
  (forall r, In r rows -> nth (S r) (c_indptr R A) 0 <= length (c_indices R A)) ->
  i < length rows ->
  csr_rowsubset R rO radd rmul A rows x i = mv R rO radd rmul (csr_dense R rO radd A) x (nth i rows 0).
Proof. exact (rowsubset_spec_l R rO rI radd rmul rsub ropp Rth). Qed.

(* ------------------------------------------------------------------------------------------ *)
Local Notation kron_ent := (Proofs2.kron_ent R rI rmul).
Local Notation kron_dense := (Proofs2.kron_dense R rI rmul).
Local Notation sumn := (Model.sumn R rO radd).
Local Notation omats ops := (map (omat R) ops).
Local Notation orows ops := (map (fun o => mrows R (omat R o)) ops).
Local Notation ocols ops := (map (fun o => mcols R (omat R o)) ops).

(* kron_ent ops i j is np.kron(A_1, np.kron(A_2, ...))[i, j]:
   A_1[i / R', j / C'] * kron(rest)[i mod R', j mod C'] (Proofs2.kron_ent).

   _apply_kronecker_dense (kronecker.py:59-69), vector argument: for any number of operands of
   any kind and any (rectangular) shapes the result is the flat Kronecker matrix times x ... *)
Theorem kron_dense_spec : forall (ops : list (operand R)) (x : arr R) i,
  ashape R x = [prodl (ocols ops)] -> i < prodl (orows ops) ->
  aat R (apply_kronecker_dense R rO radd rmul ops x) [i] =
  sumn (prodl (ocols ops)) (fun j => rmul (kron_ent (omats ops) i j) (aat R x [j])).
Proof. exact (kron_dense_vec_l R rO rI radd rmul rsub ropp Rth). Qed.

(* ... and for (N,m) arguments, m = 1 (no trailing axis, kronecker.py:64) and m > 1 *)
Theorem kron_dense_spec_multi : forall (ops : list (operand R)) (x : arr R) m i c,
  ashape R x = [prodl (ocols ops); m] -> i < prodl (orows ops) -> c < m ->
  aat R (apply_kronecker_dense R rO radd rmul ops x) [i; c] =
  sumn (prodl (ocols ops)) (fun j => rmul (kron_ent (omats ops) i j) (aat R x [j; c])).
Proof. exact (kron_dense_mat_l R rO rI radd rmul rsub ropp Rth). Qed.

(* _apply_kronecker_linops (kronecker.py:15-56): the column-major sweeps over square factors
   (any number, any sizes) compute the same product; vectors ... *)
Theorem kron_linops_spec : forall (ops : list (operand R)) (x : arr R) i,
  squares R ops -> ashape R x = [prodl (orows ops)] -> i < prodl (orows ops) ->
  aat R (apply_kronecker_linops R rO radd rmul ops x) [i] =
  sumn (prodl (orows ops)) (fun j => rmul (kron_ent (omats ops) i j) (aat R x [j])).
Proof. exact (kron_linops_vec_l R rO rI radd rmul rsub ropp Rth). Qed.

(* ... and (N,m) arguments (per-column loop l.49-52; m = 1 branch l.46-47) *)
Theorem kron_linops_spec_multi : forall (ops : list (operand R)) (x : arr R) m i c,
  squares R ops -> ashape R x = [prodl (orows ops); m] -> i < prodl (orows ops) ->
  aat R (apply_kronecker_linops R rO radd rmul ops x) [i; c] =
  sumn (prodl (orows ops)) (fun j => rmul (kron_ent (omats ops) i j) (aat R x [j; c])).
Proof. exact (kron_linops_mat_l R rO rI radd rmul rsub ropp Rth). Qed.

(* KroneckerOperator (operators.py:60-86): whichever branch the dispatch takes, for operands of
   any kind and shape, the operator acts like np.kron of the operands *)
Theorem kron_operator_spec : forall (ops : list (operand R)) (x : arr R) i,
  ashape R x = [prodl (ocols ops)] -> i < prodl (orows ops) ->
  aat R (kronecker_operator R rO radd rmul ops x) [i] =
  sumn (prodl (ocols ops)) (fun j => rmul (kron_ent (omats ops) i j) (aat R x [j])).
Proof. exact (kron_operator_vec_l R rO rI radd rmul rsub ropp Rth). Qed.

Theorem kron_operator_spec_multi : forall (ops : list (operand R)) (x : arr R) m i c,
  ashape R x = [prodl (ocols ops); m] -> i < prodl (orows ops) -> c < m ->
  aat R (kronecker_operator R rO radd rmul ops x) [i; c] =
  sumn (prodl (ocols ops)) (fun j => rmul (kron_ent (omats ops) i j) (aat R x [j; c])).
Proof. exact (kron_operator_mat_l R rO rI radd rmul rsub ropp Rth). Qed.

(* KroneckerOperator._transpose (operators.py:82-83) acts like the transposed Kronecker matrix *)
Theorem kron_transpose : forall (ops : list (operand R)) (x : arr R) i,
  ashape R x = [prodl (orows ops)] -> i < prodl (ocols ops) ->
  aat R (kronecker_operator_T R rO radd rmul ops x) [i] =
  sumn (prodl (orows ops)) (fun j => rmul (ment R (mT R (kron_dense (omats ops))) i j) (aat R x [j])).
Proof. exact (kron_transpose_vec_l R rO rI radd rmul rsub ropp Rth). Qed.

Theorem kron_transpose_multi : forall (ops : list (operand R)) (x : arr R) m i c,
  ashape R x = [prodl (orows ops); m] -> i < prodl (ocols ops) -> c < m ->
  aat R (kronecker_operator_T R rO radd rmul ops x) [i; c] =
  sumn (prodl (orows ops)) (fun j => rmul (ment R (mT R (kron_dense (omats ops))) i j) (aat R x [j; c])).
Proof. exact (kron_transpose_mat_l R rO rI radd rmul rsub ropp Rth). Qed.

(* modek_tprod (tensor.py:150-167), dense and sparse/LinearOperator branch: the new axis is put
   back in position k *)
Theorem modek_tprod_shape : forall (B : operand R) k (X : arr R),
  nth k (ashape R X) 0 = mcols R (omat R B) ->
  ashape R (modek_tprod R rO radd rmul B k X) = insert_at k (mrows R (omat R B)) (remove_at k (ashape R X)).
Proof. exact (modek_tprod_shape_l R rO radd rmul). Qed.

Theorem modek_tprod_spec : forall (B : operand R) k (X : arr R) idx,
  inr (remove_at k idx) (remove_at k (ashape R X)) ->
  aat R (modek_tprod R rO radd rmul B k X) idx =
  sumn (mcols R (omat R B))
       (fun j => rmul (ment R (omat R B) (nth k idx 0) j) (aat R X (insert_at k j (remove_at k idx)))).
Proof. exact (modek_tprod_spec_l R rO rI radd rmul rsub ropp Rth). Qed.

(* BlockOperator (operators.py:138-178): ranges from the block heights/widths, null blocks
   skipped; for every rectangular grid whose blocks have the shape of their cell (the assertion
   of l.171) the operator acts like np.block of the grid with zero blocks (grid_ent) ... *)
Theorem grid_block_spec : forall grid hs ws x r, wf_grid R grid hs ws ->
  base_block_matvec R rO radd rmul (block_operator R grid hs ws) x r =
  mv R rO radd rmul (grid_dense R rO grid hs ws) x r.
Proof. exact (grid_block_spec_l R rO rI radd rmul rsub ropp Rth). Qed.

(* ... and its transpose like the transposed np.block matrix *)
Theorem grid_block_transpose : forall grid hs ws x r, wf_grid R grid hs ws ->
  (forall b, In b (block_operator R grid hs ws) -> pro R b + mrows R (pb R b) <= suml hs) ->
  base_block_matvec R rO radd rmul (map (placed_T R) (block_operator R grid hs ws)) x r =
  mv R rO radd rmul (mT R (grid_dense R rO grid hs ws)) x r.
Proof. exact (grid_block_transpose_l R rO rI radd rmul rsub ropp Rth). Qed.

(* make_kronecker_solver (operators.py:279-284) = KroneckerOperator of the factor solvers.
   Hypothesis (contract of make_solver, not proved: LAPACK/SuperLU): B_k . Binv_k is the identity
   (deltas (mmuls Bs Binvs)).  Then kron(B_1..B_n) . (solver . x) = x, for vectors ... *)
Theorem kron_solver_inverts : forall (Bs : list (mat R)) (Binvs : list (operand R)) (x : arr R),
  compat R Bs (omats Binvs) -> deltas R rO rI (mmuls R rO radd rmul Bs (omats Binvs)) -> squares R Binvs ->
  ashape R x = [prodl (ocols Binvs)] ->
  forall i, i < prodl (rowsl R Bs) ->
  sumn (prodl (colsl R Bs))
       (fun j => rmul (kron_ent Bs i j) (aat R (kronecker_operator R rO radd rmul Binvs x) [j])) = aat R x [i].
Proof. exact (kron_solver_vec_l R rO rI radd rmul rsub ropp Rth). Qed.

(* ... and several right-hand sides *)
Theorem kron_solver_inverts_multi : forall (Bs : list (mat R)) (Binvs : list (operand R)) (x : arr R) m c,
  compat R Bs (omats Binvs) -> deltas R rO rI (mmuls R rO radd rmul Bs (omats Binvs)) -> squares R Binvs ->
  ashape R x = [prodl (ocols Binvs); m] -> c < m ->
  forall i, i < prodl (rowsl R Bs) ->
  sumn (prodl (colsl R Bs))
       (fun j => rmul (kron_ent Bs i j) (aat R (kronecker_operator R rO radd rmul Binvs x) [j; c])) = aat R x [i; c].
Proof. exact (kron_solver_mat_l R rO rI radd rmul rsub ropp Rth). Qed.

(* fastdiag_solver (solvers.py:17-42), ANY dimension.  Hypotheses (contract of scipy.linalg.eigh,
   not proved): per direction K U = M U diag(lam) and (M U) U^T = I (eig_ok); dinv is the
   entrywise inverse of the eigenvalue sum diag (diag_ev, the recursive form of l.32-37).
   Then L . (solver . x) = x for the Kronecker-sum matrix L = sum_d M (x)..(x) K_d (x)..(x) M
   (lap_ent, recursive form K (x) kron(M..) + M (x) L(rest)), vector argument. *)
Theorem fastdiag_inverts : forall (fs : list (eigfac R)) (Us : list (operand R)) (dinv : nat -> R) (x : arr R),
  Forall (eig_ok R rO rI radd rmul) fs -> omats Us = map (fU R) fs ->
  (forall c, c < prodl (sizes R fs) -> rmul (diag_ev R rO radd fs c) (dinv c) = rI) ->
  ashape R x = [prodl (sizes R fs)] ->
  forall i, i < prodl (sizes R fs) ->
  sumn (prodl (sizes R fs))
       (fun j => rmul (lap_ent R rO rI radd rmul fs i j) (aat R (fastdiag_apply R rO radd rmul Us dinv x) [j])) = aat R x [i].
Proof. exact (fastdiag_inverts_l R rO rI radd rmul rsub ropp Rth). Qed.

(* ------------------------------------------------------------------------------------------ *)
(* BlockOperator transpose: the row bound of grid_block_transpose follows from wf_grid *)
Theorem grid_block_transpose_full : forall grid hs ws x r, wf_grid R grid hs ws ->
  base_block_matvec R rO radd rmul (map (placed_T R) (block_operator R grid hs ws)) x r =
  mv R rO radd rmul (mT R (grid_dense R rO grid hs ws)) x r.
Proof. exact (grid_block_transpose_full_l R rO rI radd rmul rsub ropp Rth). Qed.

(* functools.reduce(np.kron, ops) (left-nested, Model2.kron_reduce) has the shape and, on its index
   range, the entries of the right-nested Kronecker matrix kron_ent used by all theorems above *)
Theorem kron_reduce_spec : forall ops,
  mrows R (kron_reduce R rI rmul ops) = prodl (rowsl R ops) /\
  mcols R (kron_reduce R rI rmul ops) = prodl (colsl R ops) /\
  forall i j, i < prodl (rowsl R ops) -> j < prodl (colsl R ops) ->
    ment R (kron_reduce R rI rmul ops) i j = kron_ent ops i j.
Proof. exact (kron_reduce_spec_l R rO rI radd rmul rsub ropp Rth). Qed.

(* the Kronecker-sum matrix  sum_d reduce(np.kron, [M_0,..,K_d,..,M_{dim-1}])  as the code's callers and
   the docstring of fastdiag_solver write it equals the recursive form lap_ent ... *)
Theorem lap_code_spec : forall fs, Forall (eig_ok R rO rI radd rmul) fs -> forall i j,
  i < prodl (sizes R fs) -> j < prodl (sizes R fs) ->
  fastdiag_lap_code R rO rI radd rmul (map (fK R) fs) (map (fM R) fs) i j = lap_ent R rO rI radd rmul fs i j.
Proof. exact (lap_code_spec_l R rO rI radd rmul rsub ropp Rth). Qed.

(* ... and diag of solvers.py:32-37, sum_d reduce(np.kron, [ones,..,lam_d,..,ones]), equals diag_ev *)
Theorem diag_code_spec : forall fs c, c < prodl (sizes R fs) ->
  fastdiag_diag_code R rO rI radd rmul (sizes R fs) (map (flam R) fs) c = diag_ev R rO radd fs c.
Proof. exact (diag_code_spec_l R rO rI radd rmul rsub ropp Rth). Qed.

(* fastdiag_solver for several right-hand sides (DiagonalOperator acts as diag[:,None] * x) *)
Theorem fastdiag_inverts_multi : forall (fs : list (eigfac R)) (Us : list (operand R)) (dinv : nat -> R) (x : arr R) m,
  Forall (eig_ok R rO rI radd rmul) fs -> omats Us = map (fU R) fs ->
  (forall c, c < prodl (sizes R fs) -> rmul (diag_ev R rO radd fs c) (dinv c) = rI) ->
  ashape R x = [prodl (sizes R fs); m] ->
  forall i k, i < prodl (sizes R fs) -> k < m ->
  sumn (prodl (sizes R fs))
       (fun j => rmul (lap_ent R rO rI radd rmul fs i j) (aat R (fastdiag_apply_mat R rO radd rmul Us dinv x) [j; k])) = aat R x [i; k].
Proof. exact (fastdiag_inverts_mat_l R rO rI radd rmul rsub ropp Rth). Qed.

(* the same two theorems about the expressions the code builds (left-nested Kronecker sums) *)
Theorem fastdiag_inverts_code : forall (fs : list (eigfac R)) (Us : list (operand R)) (dinv : nat -> R) (x : arr R),
  Forall (eig_ok R rO rI radd rmul) fs -> omats Us = map (fU R) fs ->
  (forall c, c < prodl (sizes R fs) ->
     rmul (fastdiag_diag_code R rO rI radd rmul (sizes R fs) (map (flam R) fs) c) (dinv c) = rI) ->
  ashape R x = [prodl (sizes R fs)] ->
  forall i, i < prodl (sizes R fs) ->
  sumn (prodl (sizes R fs))
       (fun j => rmul (fastdiag_lap_code R rO rI radd rmul (map (fK R) fs) (map (fM R) fs) i j)
                      (aat R (fastdiag_apply R rO radd rmul Us dinv x) [j])) = aat R x [i].
Proof. exact (fastdiag_inverts_code_l R rO rI radd rmul rsub ropp Rth). Qed.

Theorem fastdiag_inverts_code_multi : forall (fs : list (eigfac R)) (Us : list (operand R)) (dinv : nat -> R) (x : arr R) m,
  Forall (eig_ok R rO rI radd rmul) fs -> omats Us = map (fU R) fs ->
  (forall c, c < prodl (sizes R fs) ->
     rmul (fastdiag_diag_code R rO rI radd rmul (sizes R fs) (map (flam R) fs) c) (dinv c) = rI) ->
  ashape R x = [prodl (sizes R fs); m] ->
  forall i k, i < prodl (sizes R fs) -> k < m ->
  sumn (prodl (sizes R fs))
       (fun j => rmul (fastdiag_lap_code R rO rI radd rmul (map (fK R) fs) (map (fM R) fs) i j)
                      (aat R (fastdiag_apply_mat R rO radd rmul Us dinv x) [j; k])) = aat R x [i; k].
Proof. exact (fastdiag_inverts_code_mat_l R rO rI radd rmul rsub ropp Rth). Qed.

(* kronecker.apply_kronecker (kronecker.py:6-12), its own dispatch as one statement: all operands
   ndarrays -> _apply_kronecker_dense, otherwise every operand is wrapped by aslinearoperator and the
   column-major sweeps run; for square factors (the documented domain) of any kind the result is the
   Kronecker matrix times x on either branch -- vectors ... *)
Theorem apply_kronecker_spec : forall (ops : list (operand R)) (x : arr R) i,
  squares R ops -> ashape R x = [prodl (orows ops)] -> i < prodl (orows ops) ->
  aat R (apply_kronecker R rO radd rmul ops x) [i] =
  sumn (prodl (orows ops)) (fun j => rmul (kron_ent (omats ops) i j) (aat R x [j])).
Proof. exact (apply_kronecker_vec_l R rO rI radd rmul rsub ropp Rth). Qed.

(* ... and (N,m) arguments *)
Theorem apply_kronecker_spec_multi : forall (ops : list (operand R)) (x : arr R) m i c,
  squares R ops -> ashape R x = [prodl (orows ops); m] -> i < prodl (orows ops) -> c < m ->
  aat R (apply_kronecker R rO radd rmul ops x) [i; c] =
  sumn (prodl (orows ops)) (fun j => rmul (kron_ent (omats ops) i j) (aat R x [j; c])).
Proof. exact (apply_kronecker_mat_l R rO rI radd rmul rsub ropp Rth). Qed.

End Props.

Print Assumptions apply_tprod_spec.
Print Assumptions kron_core_spec.
Print Assumptions modek_sparse_spec.
Print Assumptions block_spec.
Print Assumptions block_transpose.
Print Assumptions blockdiag_spec.
Print Assumptions blockdiag_transpose.
Print Assumptions diag_spec.
Print Assumptions diag_symmetric.
Print Assumptions identity_spec.
Print Assumptions null_spec.
Print Assumptions subspace_spec.
Print Assumptions subspace_transpose.
Print Assumptions rowslice_spec.
Print Assumptions rowsubset_spec.

Print Assumptions kron_dense_spec.
Print Assumptions kron_dense_spec_multi.
Print Assumptions kron_linops_spec.
Print Assumptions kron_linops_spec_multi.
Print Assumptions kron_operator_spec.
Print Assumptions kron_operator_spec_multi.
Print Assumptions kron_transpose.
Print Assumptions kron_transpose_multi.
Print Assumptions modek_tprod_shape.
Print Assumptions modek_tprod_spec.
Print Assumptions grid_block_spec.
Print Assumptions grid_block_transpose.
Print Assumptions kron_solver_inverts.
Print Assumptions kron_solver_inverts_multi.
Print Assumptions fastdiag_inverts.

Print Assumptions grid_block_transpose_full.
Print Assumptions kron_reduce_spec.
Print Assumptions lap_code_spec.
Print Assumptions diag_code_spec.
Print Assumptions fastdiag_inverts_multi.
Print Assumptions fastdiag_inverts_code.
Print Assumptions fastdiag_inverts_code_multi.

Print Assumptions apply_kronecker_spec.
Print Assumptions apply_kronecker_spec_multi.

(* Further theorems live in PropsField.v (over mathcomp's comRingType, via FieldBridge.v):
   left_inverse_is_right_inverse, eigh_contract_suffices, fastdiag_inverts_eigh[_multi] -- fastdiag_inverts
   from the contract eigh actually provides (K U = M U diag(lam), U^T M U = I).

   NOT PROVED:
   - fastdiag_apply / fastdiag_apply_mat are not exercised by the correspondence case files (the
     implementation's U, lambda come from LAPACK and are not exactly representable in general); they are
     covered by Examples.v and, numerically, by the exact residual check of the fastdiag solver cases;
   - adjoints (.H): real operands only, identified with the transpose in the model (complex operands would
     need a conjugation on the carrier; not modelled);
   - the contracts of make_solver / eigh themselves (LAPACK, SuperLU): numerical residual check only. *)
