(* C14 -- proofs: the model's gluing is the equivalence closure of the joins. *)
From Coq Require Import List Arith Bool Lia.
From Verif.lib Require Import Slice.
From Verif.C14 Require Import Model Spec.
Import ListNotations.

(* ------------------------------------------------------------------ *)
(* dof equality *)

Lemma dof_eqb_eq a b : dof_eqb a b = true <-> a = b.
Proof.
  destruct a as [p i], b as [q j]; unfold dof_eqb; simpl.
  rewrite andb_true_iff, !Nat.eqb_eq. split.
  - intros [-> ->]; reflexivity.
  - intros H; inversion H; auto.
Qed.

Lemma dof_eqb_refl a : dof_eqb a a = true.
Proof. apply dof_eqb_eq; reflexivity. Qed.

Lemma dof_eqb_neq a b : dof_eqb a b = false <-> a <> b.
Proof.
  split.
  - intros H E. apply dof_eqb_eq in E. congruence.
  - intros H. destruct (dof_eqb a b) eqn:E; auto. apply dof_eqb_eq in E. contradiction.
Qed.

Lemma dof_eq_dec (a b : dof) : {a = b} + {a <> b}.
Proof. decide equality; apply Nat.eq_dec. Qed.

(* ------------------------------------------------------------------ *)
(* the closure when one identification is added *)

Lemma conn_mono ps e x y : conn ps x y -> conn (ps ++ [e]) x y.
Proof.
  induction 1 as [x|x y H|x y _ IH|x y z _ IH1 _ IH2].
  - apply conn_refl.
  - apply conn_edge. apply in_or_app; left; exact H.
  - apply conn_sym; exact IH.
  - eapply conn_trans; eassumption.
Qed.

Definition Q ps (a b x y : dof) : Prop :=
  conn ps x y \/ (conn ps x a /\ conn ps b y) \/ (conn ps x b /\ conn ps a y).

Lemma Q_sym ps a b x y : Q ps a b x y -> Q ps a b y x.
Proof.
  unfold Q; intros [H|[[H1 H2]|[H1 H2]]].
  - left; apply conn_sym; exact H.
  - right; right; split; apply conn_sym; assumption.
  - right; left; split; apply conn_sym; assumption.
Qed.

Lemma Q_trans ps a b x y z : Q ps a b x y -> Q ps a b y z -> Q ps a b x z.
Proof.
  assert (T := conn_trans ps). assert (S := conn_sym ps).
  unfold Q; intros [H|[[H1 H2]|[H1 H2]]] [G|[[G1 G2]|[G1 G2]]].
  - left; eauto.
  - right; left; split; eauto.
  - right; right; split; eauto.
  - right; left; split; eauto.
  - right; left; split; assumption.
  - left. eapply T; [exact H1|exact G2].
  - right; right; split; eauto.
  - left. eapply T; [exact H1|exact G2].
  - right; right; split; assumption.
Qed.

Lemma conn_add ps a b x y :
  conn (ps ++ [(a, b)]) x y <-> Q ps a b x y.
Proof.
  split.
  - induction 1 as [x|x y H|x y _ IH|x y z _ IH1 _ IH2].
    + left; apply conn_refl.
    + apply in_app_or in H. destruct H as [H|[H|[]]].
      * left; apply conn_edge; exact H.
      * inversion H; subst. right; left; split; apply conn_refl.
    + apply Q_sym; exact IH.
    + eapply Q_trans; eassumption.
  - intros [H|[[H1 H2]|[H1 H2]]].
    + apply conn_mono; exact H.
    + eapply conn_trans; [apply conn_mono; exact H1|].
      eapply conn_trans; [|apply conn_mono; exact H2].
      apply conn_edge. apply in_or_app; right; left; reflexivity.
    + eapply conn_trans; [apply conn_mono; exact H1|].
      eapply conn_trans; [|apply conn_mono; exact H2].
      apply conn_sym. apply conn_edge. apply in_or_app; right; left; reflexivity.
Qed.

(* ------------------------------------------------------------------ *)
(* lookup lemmas *)

Lemma lookup_cons m k s x :
  lookup ((k, s) :: m) x = if dof_eqb x k then Some s else lookup m x.
Proof. reflexivity. Qed.

Lemma lookup_relabel s2 s1 m x :
  lookup (relabel s2 s1 m) x =
  match lookup m x with Some s => Some (if s =? s2 then s1 else s) | None => None end.
Proof.
  induction m as [|[k s] m IH]; simpl; [reflexivity|].
  destruct (dof_eqb x k); [reflexivity|exact IH].
Qed.

Lemma lookup_in m x s : lookup m x = Some s -> In (x, s) m.
Proof.
  induction m as [|[k s'] m IH]; simpl; [discriminate|].
  destruct (dof_eqb x k) eqn:E.
  - intros H; inversion H; subst. apply dof_eqb_eq in E; subst. left; reflexivity.
  - intros H; right; apply IH; exact H.
Qed.

Lemma lookup_used m x s : lookup m x = Some s -> used m s = true.
Proof.
  intros H. apply lookup_in in H. unfold used. apply existsb_exists.
  exists (x, s); split; [exact H|simpl; apply Nat.eqb_refl].
Qed.

(* ------------------------------------------------------------------ *)
(* the invariant of join1 *)

Definition Inv (ps : list (dof * dof)) (st : state) : Prop :=
  (forall x y, cls st x = cls st y <-> conn ps x y) /\
  (forall x s, lookup (sm st) x = Some s -> s < nsd st).

Lemma Inv_init : Inv [] init.
Proof.
  split.
  - intros x y; unfold cls; simpl. split.
    + intros H; inversion H; apply conn_refl.
    + induction 1 as [x|x y H|x y _ IH|x y z _ IH1 _ IH2]; try congruence. destruct H.
  - intros x s; simpl; discriminate.
Qed.

Ltac case_dof a b := destruct (dof_eq_dec a b) as [?|?];
  [subst; rewrite ?dof_eqb_refl in * | ].

Lemma Inv_step ps st a b : Inv ps st -> Inv (ps ++ [(a, b)]) (join1 st (a, b)).
Proof.
  intros [Hc Hb].
  assert (Hc' : forall x y, conn ps x y <-> cls st x = cls st y) by (intros; symmetry; apply Hc).
  assert (HQ : forall x y, conn (ps ++ [(a, b)]) x y <->
     (cls st x = cls st y \/ (cls st x = cls st a /\ cls st b = cls st y)
                          \/ (cls st x = cls st b /\ cls st a = cls st y))).
  { intros x y. rewrite conn_add. unfold Q. rewrite !Hc'. reflexivity. }
  unfold join1.
  destruct (lookup (sm st) a) as [s1|] eqn:La; destruct (lookup (sm st) b) as [s2|] eqn:Lb.
  - (* both shared *)
    destruct (Nat.eqb_spec s1 s2) as [E|NE].
    + subst s2. split; [|exact Hb].
      intros x y. rewrite HQ. unfold cls in *. rewrite La, Lb.
      split; [tauto|]. intros [H|[[H1 H2]|[H1 H2]]]; congruence.
    + split.
      * intros x y. rewrite HQ. unfold cls; simpl. rewrite !lookup_relabel.
        unfold cls. rewrite La, Lb.
        destruct (lookup (sm st) x) as [sx|] eqn:Lx; destruct (lookup (sm st) y) as [sy|] eqn:Ly;
          repeat match goal with |- context [?u =? ?v] => destruct (Nat.eqb_spec u v) end;
          subst; split; intros H;
          try (left; congruence);
          try (destruct H as [H|[[H1 H2]|[H1 H2]]]; congruence);
          try (inversion H; subst; tauto).
        all: try (right; left; split; congruence).
        all: try (right; right; split; congruence).
      * simpl. intros x s. rewrite lookup_relabel.
        destruct (lookup (sm st) x) as [sx|] eqn:Lx; [|discriminate].
        intros H; inversion H; subst.
        destruct (sx =? s2); [eapply Hb; exact La | eapply Hb; exact Lx].
  - (* a shared, b not *)
    split.
    + intros x y. rewrite HQ. unfold cls; simpl. unfold cls. rewrite La, Lb.
      case_dof x b; case_dof y b; rewrite ?Lb;
        repeat match goal with H : ?u <> ?v |- context [dof_eqb ?u ?v] =>
                 rewrite (proj2 (dof_eqb_neq u v) H) end.
      * tauto.
      * destruct (lookup (sm st) y) as [sy|] eqn:Ly; split; intros H;
          try (inversion H; subst; right; right; split; congruence);
          try (destruct H as [H|[[H1 H2]|[H1 H2]]]; congruence).
      * destruct (lookup (sm st) x) as [sx|] eqn:Lx; split; intros H;
          try (inversion H; subst; right; left; split; congruence);
          try (destruct H as [H|[[H1 H2]|[H1 H2]]]; congruence).
      * destruct (lookup (sm st) x) as [sx|] eqn:Lx; destruct (lookup (sm st) y) as [sy|] eqn:Ly;
          split; intros H; try (left; congruence);
          try (destruct H as [H|[[H1 H2]|[H1 H2]]]; congruence).
    + simpl. intros x s. destruct (dof_eqb x b).
      * intros H; inversion H; subst. eapply Hb; exact La.
      * apply Hb.
  - (* b shared, a not *)
    split.
    + intros x y. rewrite HQ. unfold cls; simpl. unfold cls. rewrite La, Lb.
      case_dof x a; case_dof y a; rewrite ?La;
        repeat match goal with H : ?u <> ?v |- context [dof_eqb ?u ?v] =>
                 rewrite (proj2 (dof_eqb_neq u v) H) end.
      * tauto.
      * destruct (lookup (sm st) y) as [sy|] eqn:Ly; split; intros H;
          try (inversion H; subst; right; left; split; congruence);
          try (destruct H as [H|[[H1 H2]|[H1 H2]]]; congruence).
      * destruct (lookup (sm st) x) as [sx|] eqn:Lx; split; intros H;
          try (inversion H; subst; right; right; split; congruence);
          try (destruct H as [H|[[H1 H2]|[H1 H2]]]; congruence).
      * destruct (lookup (sm st) x) as [sx|] eqn:Lx; destruct (lookup (sm st) y) as [sy|] eqn:Ly;
          split; intros H; try (left; congruence);
          try (destruct H as [H|[[H1 H2]|[H1 H2]]]; congruence).
    + simpl. intros x s. destruct (dof_eqb x a).
      * intros H; inversion H; subst. eapply Hb; exact Lb.
      * apply Hb.
  - (* neither shared: a fresh shared dof *)
    assert (Fresh : forall x, lookup (sm st) x <> Some (nsd st)).
    { intros x H. apply Hb in H. lia. }
    split.
    + intros x y. rewrite HQ. unfold cls; simpl. unfold cls. rewrite La, Lb.
      destruct (dof_eq_dec x a) as [Exa|Nxa]; destruct (dof_eq_dec x b) as [Exb|Nxb];
      destruct (dof_eq_dec y a) as [Eya|Nya]; destruct (dof_eq_dec y b) as [Eyb|Nyb];
        subst; rewrite ?dof_eqb_refl, ?La, ?Lb;
        repeat match goal with H : ?u <> ?v |- context [dof_eqb ?u ?v] =>
                 rewrite (proj2 (dof_eqb_neq u v) H) end;
        rewrite ?La, ?Lb;
        try (split; [intros _; tauto | reflexivity]);
        try (split; [intros _; right; left; split; reflexivity | reflexivity]);
        try (split; [intros _; right; right; split; reflexivity | reflexivity]).
      all: try (destruct (lookup (sm st) y) as [sy|] eqn:Ly; split; intros H;
            [ inversion H; subst; exfalso; eapply Fresh; eassumption
            | destruct H as [H|[[H1 H2]|[H1 H2]]]; congruence
            | discriminate
            | destruct H as [H|[[H1 H2]|[H1 H2]]]; congruence ]).
      all: try (destruct (lookup (sm st) x) as [sx|] eqn:Lx; split; intros H;
            [ inversion H; subst; exfalso; eapply Fresh; eassumption
            | destruct H as [H|[[H1 H2]|[H1 H2]]]; congruence
            | discriminate
            | destruct H as [H|[[H1 H2]|[H1 H2]]]; congruence ]).
      all: try (destruct (lookup (sm st) x) as [sx|] eqn:Lx; destruct (lookup (sm st) y) as [sy|] eqn:Ly;
          split; intros H; try (left; congruence);
          try (destruct H as [H|[[H1 H2]|[H1 H2]]]; congruence)).
    + simpl. intros x s. destruct (dof_eqb x a); [intros H; inversion H; lia|].
      destruct (dof_eqb x b); [intros H; inversion H; lia|].
      intros H; apply Hb in H; lia.
Qed.

(* ------------------------------------------------------------------ *)
(* every history of joins *)

Lemma Inv_fold ps : forall ps0 st, Inv ps0 st -> Inv (ps0 ++ ps) (fold_left join1 ps st).
Proof.
  induction ps as [|[a b] ps IH]; intros ps0 st H; simpl.
  - rewrite app_nil_r; exact H.
  - replace (ps0 ++ (a, b) :: ps) with ((ps0 ++ [(a, b)]) ++ ps)
      by (rewrite <- app_assoc; reflexivity).
    apply IH. apply Inv_step; exact H.
Qed.

Lemma reachable_Inv ps : Inv ps (fold_left join1 ps init).
Proof. apply (Inv_fold ps [] init Inv_init). Qed.

Lemma fold_left_flat_map {A B S : Type} (f : S -> B -> S) (g : A -> list B) (l : list A) (s : S) :
  fold_left (fun s a => fold_left f (g a) s) l s = fold_left f (flat_map g l) s.
Proof.
  revert s; induction l as [|a l IH]; intros s; simpl; [reflexivity|].
  rewrite fold_left_app. apply IH.
Qed.

Lemma run_as_pairs shapes js : run shapes js = fold_left join1 (all_pairs shapes js) init.
Proof. unfold run, all_pairs, join_boundaries. apply fold_left_flat_map. Qed.

Lemma glue_is_closure_pairs ps x y :
  cls (fold_left join1 ps init) x = cls (fold_left join1 ps init) y <-> conn ps x y.
Proof. apply (proj1 (reachable_Inv ps)). Qed.

Lemma glue_is_closure_boundaries shapes js x y :
  cls (run shapes js) x = cls (run shapes js) y <-> conn (all_pairs shapes js) x y.
Proof. rewrite run_as_pairs. apply glue_is_closure_pairs. Qed.

(* the closure does not depend on the order (or repetition) of the joins *)
Lemma conn_incl ps qs x y : incl ps qs -> conn ps x y -> conn qs x y.
Proof.
  intros Hi. induction 1 as [x|x y H|x y _ IH|x y z _ IH1 _ IH2].
  - apply conn_refl.
  - apply conn_edge; apply Hi; exact H.
  - apply conn_sym; exact IH.
  - eapply conn_trans; eassumption.
Qed.

Lemma join_order_irrelevant_pairs ps qs x y :
  incl ps qs -> incl qs ps ->
  (cls (fold_left join1 ps init) x = cls (fold_left join1 ps init) y <->
   cls (fold_left join1 qs init) x = cls (fold_left join1 qs init) y).
Proof.
  intros H1 H2. rewrite !glue_is_closure_pairs.
  split; apply conn_incl; assumption.
Qed.

(* ------------------------------------------------------------------ *)
(* counting lemmas for the numbering *)

Lemma cnt_S f n : cnt f (S n) = cnt f n + (if f n then 1 else 0).
Proof.
  unfold cnt. rewrite seq_S, filter_app, app_length. simpl.
  destruct (f n); simpl; lia.
Qed.

Lemma cnt_mono f i j : i <= j -> cnt f i <= cnt f j.
Proof.
  induction 1 as [|j _ IH]; [lia|]. rewrite cnt_S. lia.
Qed.

Lemma cnt_strict f i j : f i = true -> i < j -> cnt f i < cnt f j.
Proof.
  intros Hf Hij. assert (H : cnt f (S i) <= cnt f j) by (apply cnt_mono; lia).
  rewrite cnt_S, Hf in H. lia.
Qed.

Lemma cnt_inj f i j : f i = true -> f j = true -> cnt f i = cnt f j -> i = j.
Proof.
  intros Hi Hj E. destruct (Nat.lt_trichotomy i j) as [L|[L|L]]; [|exact L|].
  - pose proof (cnt_strict f i j Hi L). lia.
  - pose proof (cnt_strict f j i Hj L). lia.
Qed.

Lemma cnt_le f n : cnt f n <= n.
Proof. induction n as [|n IH]; [reflexivity|]. rewrite cnt_S. destruct (f n); lia. Qed.

(* every k < cnt f n is the count of exactly one true point below n *)
Lemma cnt_surj f n k : k < cnt f n -> exists i, i < n /\ f i = true /\ cnt f i = k.
Proof.
  induction n as [|n IH]; [unfold cnt; simpl; lia|].
  rewrite cnt_S. destruct (f n) eqn:E; intros H.
  - destruct (Nat.eq_dec k (cnt f n)) as [->|NE].
    + exists n; repeat split; auto.
    + destruct IH as [i [H1 [H2 H3]]]; [lia|]. exists i; repeat split; auto.
  - destruct IH as [i [H1 [H2 H3]]]; [lia|]. exists i; repeat split; auto.
Qed.

(* ------------------------------------------------------------------ *)
(* the global numbering *)

Lemma M_ofs_mono m Ns p q : p <= q -> M_ofs m Ns p <= M_ofs m Ns q.
Proof. induction 1 as [|q _ IH]; [lia|]. simpl. lia. Qed.

Lemma M_ofs_S_le_tot m Ns p : p < length Ns -> M_ofs m Ns (S p) <= Mtot m Ns.
Proof. intros H. unfold Mtot. apply M_ofs_mono. lia. Qed.

Lemma unshared_lt m Ns p i :
  i < nth p Ns 0 -> shared_in m p i = false ->
  M_ofs m Ns p + pos m p i < M_ofs m Ns (S p).
Proof.
  intros Hi Hs. simpl. unfold Mloc, pos.
  assert (cnt (fun k => negb (shared_in m p k)) i < cnt (fun k => negb (shared_in m p k)) (nth p Ns 0)).
  { apply cnt_strict; [rewrite Hs; reflexivity|exact Hi]. }
  lia.
Qed.

Lemma shared_in_lookup m p i : shared_in m p i = false <-> lookup m (p, i) = None.
Proof. unfold shared_in. destruct (lookup m (p, i)); split; congruence. Qed.

(* two existing dofs get the same global index iff they are in the same class *)
Lemma glob_eq_iff_cls st Ns x y :
  valid Ns x -> valid Ns y ->
  (glob st Ns x = glob st Ns y <-> cls st x = cls st y).
Proof.
  destruct x as [p i], y as [q j]. unfold valid; simpl. intros [Hp Hi] [Hq Hj].
  unfold glob, cls; simpl.
  destruct (lookup (sm st) (p, i)) as [s|] eqn:Lx; destruct (lookup (sm st) (q, j)) as [t|] eqn:Ly.
  - split.
    + intros H. f_equal. unfold rank in H.
      apply (cnt_inj (used (sm st))); [eapply lookup_used; eassumption|eapply lookup_used; eassumption|lia].
    + intros H; inversion H; reflexivity.
  - split; [|discriminate]. intros H. exfalso.
    apply shared_in_lookup in Ly.
    pose proof (unshared_lt (sm st) Ns q j Hj Ly).
    pose proof (M_ofs_S_le_tot (sm st) Ns q Hq). lia.
  - split; [|discriminate]. intros H. exfalso.
    apply shared_in_lookup in Lx.
    pose proof (unshared_lt (sm st) Ns p i Hi Lx).
    pose proof (M_ofs_S_le_tot (sm st) Ns p Hp). lia.
  - apply shared_in_lookup in Lx. apply shared_in_lookup in Ly.
    pose proof (unshared_lt (sm st) Ns p i Hi Lx) as B1.
    pose proof (unshared_lt (sm st) Ns q j Hj Ly) as B2.
    split.
    + intros H. destruct (Nat.lt_trichotomy p q) as [L|[L|L]].
      * pose proof (M_ofs_mono (sm st) Ns (S p) q L). lia.
      * subst q. f_equal. f_equal.
        apply (cnt_inj (fun k => negb (shared_in (sm st) p k))); [rewrite Lx; reflexivity|rewrite Ly; reflexivity|].
        unfold pos in H. lia.
      * pose proof (M_ofs_mono (sm st) Ns (S q) p L). lia.
    + intros H; inversion H; reflexivity.
Qed.

Lemma glob_lt_numdofs st Ns x :
  valid Ns x -> (forall a s, lookup (sm st) a = Some s -> s < nsd st) ->
  glob st Ns x < numdofs st Ns.
Proof.
  destruct x as [p i]. unfold valid; simpl. intros [Hp Hi] Hb.
  unfold glob, numdofs; simpl.
  destruct (lookup (sm st) (p, i)) as [s|] eqn:Lx.
  - assert (rank (sm st) s < rank (sm st) (nsd st)).
    { unfold rank. apply cnt_strict; [eapply lookup_used; exact Lx|eapply Hb; exact Lx]. }
    lia.
  - apply shared_in_lookup in Lx.
    pose proof (unshared_lt (sm st) Ns p i Hi Lx).
    pose proof (M_ofs_S_le_tot (sm st) Ns p Hp). lia.
Qed.

Lemma used_lookup m s : used m s = true -> exists x, In (x, s) m.
Proof.
  unfold used. rewrite existsb_exists. intros [[x s'] [H1 H2]]. simpl in H2.
  apply Nat.eqb_eq in H2. subst. exists x; exact H1.
Qed.

(* locate a global index below Mtot in its patch *)
Lemma M_ofs_locate m Ns g n :
  g < M_ofs m Ns n -> exists p, p < n /\ M_ofs m Ns p <= g < M_ofs m Ns (S p).
Proof.
  induction n as [|n IH]; simpl; [lia|]. intros H.
  destruct (Nat.lt_ge_cases g (M_ofs m Ns n)) as [L|L].
  - destruct (IH L) as [p [H1 H2]]. exists p; split; [lia|exact H2].
  - exists n; split; [lia|]. simpl. lia.
Qed.

(* ------------------------------------------------------------------ *)
(* second invariant: keys are bound once and stem from the declared pairs *)

Definition mentions (ps : list (dof * dof)) (x : dof) : Prop :=
  exists e, In e ps /\ (x = fst e \/ x = snd e).

Definition Inv2 (ps : list (dof * dof)) (st : state) : Prop :=
  NoDup (map fst (sm st)) /\ (forall x s, In (x, s) (sm st) -> mentions ps x).

Lemma lookup_none_notin m x : lookup m x = None <-> ~ In x (map fst m).
Proof.
  induction m as [|[k s] m IH]; simpl; [tauto|].
  destruct (dof_eqb x k) eqn:E.
  - apply dof_eqb_eq in E; subst. split; [discriminate|]. intros H; exfalso; apply H; left; reflexivity.
  - apply dof_eqb_neq in E. rewrite IH. split.
    + intros H [H1|H1]; [congruence|contradiction].
    + intros H H1; apply H; right; exact H1.
Qed.

Lemma map_fst_relabel s2 s1 m : map fst (relabel s2 s1 m) = map fst m.
Proof. unfold relabel. rewrite map_map. simpl. reflexivity. Qed.

Lemma mentions_mono ps e x : mentions ps x -> mentions (ps ++ [e]) x.
Proof. intros [e' [H1 H2]]. exists e'; split; [apply in_or_app; left; exact H1|exact H2]. Qed.

Lemma mentions_new_l ps a b : mentions (ps ++ [(a, b)]) a.
Proof. exists (a, b); split; [apply in_or_app; right; left; reflexivity|left; reflexivity]. Qed.

Lemma mentions_new_r ps a b : mentions (ps ++ [(a, b)]) b.
Proof. exists (a, b); split; [apply in_or_app; right; left; reflexivity|right; reflexivity]. Qed.

Lemma Inv2_step ps st a b : a <> b -> Inv2 ps st -> Inv2 (ps ++ [(a, b)]) (join1 st (a, b)).
Proof.
  intros Hab [Hn Hm]. unfold join1.
  destruct (lookup (sm st) a) as [s1|] eqn:La; destruct (lookup (sm st) b) as [s2|] eqn:Lb.
  - destruct (s1 =? s2).
    + split; [exact Hn|]. intros x s H; apply mentions_mono; eapply Hm; exact H.
    + split; simpl.
      * rewrite map_fst_relabel; exact Hn.
      * intros x s H. apply mentions_mono. unfold relabel in H. apply in_map_iff in H.
        destruct H as [[x' s'] [H1 H2]]. simpl in H1. inversion H1; subst. eapply Hm; exact H2.
  - split; simpl.
    + constructor; [apply lookup_none_notin; exact Lb|exact Hn].
    + intros x s [H|H]; [inversion H; subst; apply mentions_new_r|apply mentions_mono; eapply Hm; exact H].
  - split; simpl.
    + constructor; [apply lookup_none_notin; exact La|exact Hn].
    + intros x s [H|H]; [inversion H; subst; apply mentions_new_l|apply mentions_mono; eapply Hm; exact H].
  - split; simpl.
    + constructor.
      * simpl. intros [H|H]; [congruence|]. apply lookup_none_notin in La. contradiction.
      * constructor; [apply lookup_none_notin; exact Lb|exact Hn].
    + intros x s [H|[H|H]].
      * inversion H; subst; apply mentions_new_l.
      * inversion H; subst; apply mentions_new_r.
      * apply mentions_mono; eapply Hm; exact H.
Qed.

Definition distinct_pairs (ps : list (dof * dof)) : Prop := forall e, In e ps -> fst e <> snd e.

Lemma Inv2_fold ps : forall ps0 st, distinct_pairs ps -> Inv2 ps0 st ->
  Inv2 (ps0 ++ ps) (fold_left join1 ps st).
Proof.
  induction ps as [|[a b] ps IH]; intros ps0 st Hd H; simpl.
  - rewrite app_nil_r; exact H.
  - replace (ps0 ++ (a, b) :: ps) with ((ps0 ++ [(a, b)]) ++ ps)
      by (rewrite <- app_assoc; reflexivity).
    apply IH.
    + intros e He; apply Hd; right; exact He.
    + apply Inv2_step; [apply (Hd (a, b)); left; reflexivity|exact H].
Qed.

Lemma reachable_Inv2 ps : distinct_pairs ps -> Inv2 ps (fold_left join1 ps init).
Proof.
  intros Hd. apply (Inv2_fold ps [] init Hd). split; simpl; [constructor|intros x s []].
Qed.

Lemma in_lookup m x s : NoDup (map fst m) -> In (x, s) m -> lookup m x = Some s.
Proof.
  induction m as [|[k s'] m IH]; simpl; [intros _ []|].
  intros Hn [H|H].
  - inversion H; subst. rewrite dof_eqb_refl; reflexivity.
  - inversion Hn as [|? ? Hk Hn']; subst.
    destruct (dof_eqb x k) eqn:E.
    + apply dof_eqb_eq in E; subst. exfalso; apply Hk. apply in_map_iff. exists (k, s); split; auto.
    + apply IH; assumption.
Qed.

(* gap-free: every index below numdofs is the global index of an existing dof *)
Lemma glob_surjective ps Ns g :
  distinct_pairs ps -> (forall x, mentions ps x -> valid Ns x) ->
  let st := fold_left join1 ps init in
  g < numdofs st Ns -> exists x, valid Ns x /\ glob st Ns x = g.
Proof.
  intros Hd Hv st Hg.
  destruct (reachable_Inv2 ps Hd) as [Hn Hm]. fold st in Hn, Hm.
  unfold numdofs in Hg.
  destruct (Nat.lt_ge_cases g (Mtot (sm st) Ns)) as [L|L].
  - unfold Mtot in L. destruct (M_ofs_locate _ _ _ _ L) as [p [Hp [B1 B2]]].
    simpl in B2. unfold Mloc, pos in B2.
    destruct (cnt_surj (fun k => negb (shared_in (sm st) p k)) (nth p Ns 0) (g - M_ofs (sm st) Ns p))
      as [i [Hi [Hf Hc]]]; [lia|].
    exists (p, i). split; [split; simpl; assumption|].
    unfold glob; simpl. apply negb_true_iff in Hf. apply shared_in_lookup in Hf. rewrite Hf.
    unfold pos. lia.
  - destruct (cnt_surj (used (sm st)) (nsd st) (g - Mtot (sm st) Ns)) as [s [Hs [Hu Hc]]];
      [unfold rank in Hg; lia|].
    destruct (used_lookup _ _ Hu) as [x Hx].
    exists x. split; [apply Hv; eapply Hm; exact Hx|].
    unfold glob. rewrite (in_lookup _ _ _ Hn Hx). unfold rank. lia.
Qed.

(* ------------------------------------------------------------------ *)
(* the statements exported to Props.v *)

Lemma glue_is_closure_l ps Ns x y :
  valid Ns x -> valid Ns y ->
  let st := fold_left join1 ps init in
  (glob st Ns x = glob st Ns y <-> conn ps x y).
Proof.
  intros Hx Hy st. rewrite (glob_eq_iff_cls st Ns x y Hx Hy). apply glue_is_closure_pairs.
Qed.

Lemma glue_is_closure_bd_l shapes js Ns x y :
  valid Ns x -> valid Ns y ->
  (glob (run shapes js) Ns x = glob (run shapes js) Ns y <-> conn (all_pairs shapes js) x y).
Proof.
  intros Hx Hy. rewrite (glob_eq_iff_cls _ Ns x y Hx Hy). apply glue_is_closure_boundaries.
Qed.

Lemma join_order_irrelevant_l ps qs Ns x y :
  valid Ns x -> valid Ns y -> incl ps qs -> incl qs ps ->
  (glob (fold_left join1 ps init) Ns x = glob (fold_left join1 ps init) Ns y <->
   glob (fold_left join1 qs init) Ns x = glob (fold_left join1 qs init) Ns y).
Proof.
  intros Hx Hy H1 H2. rewrite !glue_is_closure_l by assumption.
  split; apply conn_incl; assumption.
Qed.

Lemma glob_range_l ps Ns x :
  valid Ns x -> glob (fold_left join1 ps init) Ns x < numdofs (fold_left join1 ps init) Ns.
Proof.
  intros Hx. apply glob_lt_numdofs; [exact Hx|]. apply (proj2 (reachable_Inv ps)).
Qed.

(* one unit entry per local dof: patch_to_global_idx lists one in-range row per column *)
Lemma p2g_idx_length st Ns p : length (patch_to_global_idx st Ns p) = nth p Ns 0.
Proof. unfold patch_to_global_idx. rewrite map_length, seq_length. reflexivity. Qed.

Lemma p2g_idx_nth st Ns p i : i < nth p Ns 0 ->
  nth i (patch_to_global_idx st Ns p) 0 = glob st Ns (p, i).
Proof.
  intros Hi. unfold patch_to_global_idx.
  rewrite (nth_indep _ 0 (glob st Ns (p, 0))) by (rewrite map_length, seq_length; exact Hi).
  rewrite (map_nth (fun i => glob st Ns (p, i))). rewrite seq_nth by exact Hi. reflexivity.
Qed.

(* (P^T P)[i,j] = [glob(p,i) = glob(p,j)]: the transpose is a left inverse iff no
   two distinct local dofs of the patch are identified with each other *)
Lemma p2g_left_inverse_l ps Ns p :
  p < length Ns ->
  let st := fold_left join1 ps init in
  ((forall i j, i < nth p Ns 0 -> j < nth p Ns 0 ->
      (nth i (patch_to_global_idx st Ns p) 0 = nth j (patch_to_global_idx st Ns p) 0 <-> i = j))
   <->
   (forall i j, i < nth p Ns 0 -> j < nth p Ns 0 -> conn ps (p, i) (p, j) -> i = j)).
Proof.
  intros Hp st. split.
  - intros H i j Hi Hj Hc. apply (H i j Hi Hj).
    rewrite !p2g_idx_nth by assumption.
    apply (glue_is_closure_l ps Ns (p, i) (p, j)); [split; assumption|split; assumption|exact Hc].
  - intros H i j Hi Hj. rewrite !p2g_idx_nth by assumption. split.
    + intros E. apply (H i j Hi Hj).
      apply (glue_is_closure_l ps Ns (p, i) (p, j)); [split; assumption|split; assumption|exact E].
    + intros ->; reflexivity.
Qed.
