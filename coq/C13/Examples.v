(* C13 -- non-vacuity: concrete tables, trees, forms, request sequences and runs that meet
   the hypotheses of the theorems in Props.v (all by computation). *)
From Coq Require Import String.
From Coq Require Import List ZArith Bool.
From Verif.C13 Require Import Model Proofs.
Import ListNotations.
Open Scope string_scope.
Open Scope Z_scope.

(* the table of vform.py with the three repairs applied (what the translator produces then) *)
Definition ex_table : table := [
  ("BuiltinFuncExpr", mk_cspec [("funcname", EHash)] [("funcname", TStr)]);
  ("ConstExpr", mk_cspec [("value", ERepr)] [("value", TFloat)]);
  ("GaussWeightExpr", mk_cspec [("axis", EHash)] [("axis", TNat)]);
  ("NegExpr", mk_cspec [] []);
  ("PartialDerivExpr", mk_cspec [("basisfun", EHash); ("D", EHash); ("physical", EHash)]
                                [("basisfun", TBfun); ("D", TNatTup); ("physical", TBool)]);
  ("ScalarOperExpr", mk_cspec [("oper", EHash)] [("oper", TStr)]);
  ("VarRefExpr", mk_cspec [("var", EHash); ("I", EHash); ("D", EHash); ("parametric", EHash)]
                          [("var", TStr); ("I", TNatTup); ("D", TNatTup); ("parametric", TBool)]);
  ("VolumeMeasureExpr", mk_cspec [] [])].

Example ex_covers : covers ex_table = true.
Proof. vm_compute. reflexivity. Qed.

(* the tables of the unrepaired source do not satisfy the hypothesis *)
Definition old_table : table := [
  ("BuiltinFuncExpr", mk_cspec [] [("funcname", TStr)]);
  ("ConstExpr", mk_cspec [("value", EHash)] [("value", TFloat)])].
Example old_not_covers : covers old_table = false.
Proof. vm_compute. reflexivity. Qed.

Definition scal := ATup [].
Definition bf (n : string) := ATup [AStr n; ANone; ANone; AInt 0].
Definition pd (n : string) := Node "PartialDerivExpr" scal [("basisfun", bf n); ("D", ATup [AInt 0; AInt 0]); ("physical", AInt 0)] [].
Definition mul a b := Node "ScalarOperExpr" scal [("oper", AStr "*")] [a; b].
Definition geo0 := Node "VarRefExpr" scal [("var", AStr "geo_a"); ("I", ATup [AInt 0]); ("D", ATup [AInt 0; AInt 0]); ("parametric", AInt 0)] [].
Definition fn (f : string) x := Node "BuiltinFuncExpr" scal [("funcname", AStr f)] [x].
Definition const (bits : Z) := Node "ConstExpr" scal [("value", AFloat bits)] [].
Definition dxm := Node "VolumeMeasureExpr" scal [] [].

Definition e_sin := mul (mul (mul (fn "sin" geo0) (pd "u")) (pd "v")) dxm.
Definition e_cos := mul (mul (mul (fn "cos" geo0) (pd "u")) (pd "v")) dxm.
Definition e_m1 := mul (mul (mul (const bits_m1) (pd "u")) (pd "v")) dxm.
Definition e_m2 := mul (mul (mul (const bits_m2) (pd "u")) (pd "v")) dxm.

Example ex_well_typed : forallb (well_typed ex_table) [e_sin; e_cos; e_m1; e_m2] = true.
Proof. vm_compute. reflexivity. Qed.

(* with the repaired table the neighbours get different keys ... *)
Example ex_sin_cos_separated : hval_eqb (key ex_table e_sin) (key ex_table e_cos) = false.
Proof. vm_compute. reflexivity. Qed.
Example ex_m1_m2_separated : hval_eqb (key ex_table e_m1) (key ex_table e_m2) = false.
Proof. vm_compute. reflexivity. Qed.
(* ... with the unrepaired one they collide although the trees differ in code-relevant content *)
Example old_sin_cos_collide : key old_table e_sin = key old_table e_cos /\ strip old_table e_sin <> strip old_table e_cos.
Proof. split; [vm_compute; reflexivity | discriminate]. Qed.
Example old_m1_m2_collide : key old_table e_m1 = key old_table e_m2 /\ strip old_table e_m1 <> strip old_table e_m2.
Proof. split; [vm_compute; reflexivity | discriminate]. Qed.

(* forms: u*v*dx style forms over a 2-D space, volume and boundary variant *)
Definition ubf := mk_bfun "u" None None 0.
Definition vbf := mk_bfun "v" None None 0.
Definition geo_in := mk_inputf "geo" [2] false false.
Definition geo_var := mk_avar "geo_a" (SInput geo_in) [2] false (Some 0).
Definition mk (bd : bool) (e : node) := mk_form 2 2 0 false bd [ubf; vbf] [geo_in] [geo_var] [e].

Example ex_wf_forms : forallb (wf_form ex_table) [mk false e_sin; mk false e_cos; mk true e_sin] = true.
Proof. vm_compute. reflexivity. Qed.
Example ex_boundary_separated : hval_eqb (form_key ex_table (mk false e_sin)) (form_key ex_table (mk true e_sin)) = false.
Proof. vm_compute. reflexivity. Qed.

(* a request sequence with repetitions and both on_demand modes over a seeded cache: the
   hypotheses of cache_returns_requested hold and the conclusion is observed by computation *)
Definition gen (od : bool) (f : form) : bool * form := (od, f).
Definition build (r : form * bool) := gen (snd r) (strip_form ex_table (fst r)).
Definition seed := [((mk false e_sin, false), build (mk false e_sin, false))].
Definition reqs := [(mk false e_cos, false); (mk false e_sin, false); (mk false e_cos, true); (mk true e_sin, false); (mk false e_cos, false)].
Example ex_cache :
  snd (serve _ _ _ keq1 (keyof1 ex_table) build (preseed _ _ _ (keyof1 ex_table) seed) reqs) = map build reqs.
Proof. vm_compute. reflexivity. Qed.
Example ex_cache_trace :
  trace _ _ _ keq1 (keyof1 ex_table) build (preseed _ _ _ (keyof1 ex_table) seed) reqs = [false; true; false; false; true].
Proof. vm_compute. reflexivity. Qed.
(* with the unrepaired table the same machine hands out sin's class for cos *)
Definition build_old (r : form * bool) := gen (snd r) (strip_form old_table (fst r)).
Example old_cache_substitutes :
  snd (serve _ _ _ keq1 (keyof1 old_table) build_old [] [(mk false e_sin, false); (mk false e_cos, false)])
  <> map build_old [(mk false e_sin, false); (mk false e_cos, false)].
Proof. vm_compute. discriminate. Qed.

(* reordering certificate: independent statements may be exchanged, dependent ones not *)
Definition s1 := mk_stmt 0 [0%nat] [].            (* a = 1    *)
Definition s2 := mk_stmt 1 [1%nat] [].            (* b = 2    *)
Definition s3 := mk_stmt 2 [2%nat] [0%nat; 1%nat].  (* c = a+b  *)
Example ex_reorder_ok : reorder_ok [s1; s2; s3] [s2; s1; s3] = true.
Proof. vm_compute. reflexivity. Qed.
Example ex_reorder_rejects : reorder_ok [s1; s2; s3] [s1; s3; s2] = false.
Proof. vm_compute. reflexivity. Qed.
Example ex_reorder_rejects_missing : reorder_ok [s1; s2; s3] [s1; s2] = false.
Proof. vm_compute. reflexivity. Qed.

(* histories on one form object over a cache seeded with the mass form:
   add(u*v*dx); hash(); add(grad.grad); compile *)
Definition e_mass := mul (mul (pd "u") (pd "v")) dxm.
Definition e_stiff := mul (mul (fn "sqrt" geo0) (pd "v")) dxm.
Definition empty2 := mk_form 2 2 0 false false [ubf; vbf] [geo_in] [geo_var] [].
Definition hseed := [((add_expr empty2 e_mass, false), build (add_expr empty2 e_mass, false))].
Definition hops := [OAdd 0 e_mass; OHash 0; OAdd 0 e_stiff; OCompile 0 false].

Example ex_hist_hyps : wf_form ex_table empty2 = true /\ Forall (op_ok ex_table) hops.
Proof. split; [vm_compute; reflexivity | repeat constructor]. Qed.

(* with the guard on the memoised hash the second add() raises and the compile returns the class of
   the content the object has (the mass form) ... *)
Example ex_hist_guard_hash :
  hrun GHash ex_table _ gen (preseed _ _ _ (keyof1 ex_table) hseed, [mk_obj empty2 None false]) hops
  = [RAdded; RHashed (form_key ex_table (add_expr empty2 e_mass)); RRaised;
     RClass true (gen false (strip_form ex_table (add_expr empty2 e_mass)))].
Proof. vm_compute. reflexivity. Qed.

(* ... with the guard on __is_finalized (seeded change C13-1) the add is accepted, the stale
   hash is used as the cache key and the class of the OTHER form is returned: the property fails *)
Example hist_guard_finalized_refuted :
  ~ hrun_good GFinal ex_table _ gen (preseed _ _ _ (keyof1 ex_table) hseed, [mk_obj empty2 None false]) hops.
Proof.
  intros H. vm_compute in H. destruct H as [_ [_ [_ [[ob [E1 E2]] _]]]].
  injection E1 as <-. discriminate E2.
Qed.
