(* C13 -- the hash layouts of the records that Model.v transcribes as fixed functions
   (bf_key, in_key, pa_key, var_key, form_key).  The translator regenerates the same
   lists from vform.py on every run and the generated obligations compare them with
   these (coq/gen/C13_ExprKeys_*.v), so a change of BasisFun.hash / InputField.hash /
   Parameter.hash / AsmVar.hash / VForm.hash invalidates the tie. *)
From Coq Require Import String.
From Coq Require Import List Bool.
Import ListNotations.
Open Scope string_scope.

Definition model_bf_key := ["name"; "numcomp"; "component"; "space"].
Definition model_in_key := ["name"; "shape"; "physical"; "updatable"].
Definition model_pa_key := ["name"; "shape"].
Definition model_var_key := ["name"; "src_hash"; "shape"; "symmetric"; "deriv"].
(* with fixes/C13-vform-hash-boundary.patch *)
Definition model_form_scalars := ["dim"; "arity"; "vec"; "spacetime"; "is_boundary"].
Definition model_form_segments := ["basis_funs"; "inputs"; "vars"; "exprs"].

Definition subset (a b : list string) : bool :=
  forallb (fun x => existsb (String.eqb x) b) a.
