(* C19 -- the executable side of the correspondence run: compares what the
   implementation returned (floats handed over as exact rationals, or as binary64
   literals for make_knots) with the models.  Definitions only. *)
From Coq Require Import QArith Qcanon ZArith List Arith Bool PrimFloat.
From Verif.lib Require Import Bsp NpCore NpQ NpF.
From Verif.C19 Require Import Model.
Import ListNotations.

(* ---- make_knots: bit-exact against the binary64 model ---- *)
Definition same_bits (x y : float) : bool :=
  (PrimFloat.eqb x y && PrimFloat.eqb (1 / x) (1 / y))%float.
Fixpoint same_list (x y : list float) : bool :=
  match x, y with
  | [], [] => true
  | a :: x', b :: y' => same_bits a b && same_list x' y'
  | _, _ => false
  end.
Definition check_mk (c : nat * float * float * nat * nat * list float) : bool :=
  let '(p, a, b, n, mult, impl) := c in same_list (make_knots_f p a b n mult) impl.
Definition check_mk_old (c : nat * float * float * nat * nat * list float) : bool :=
  let '(p, a, b, n, mult, impl) := c in same_list (make_knots_old_f p a b n mult) impl.

(* ---- KnotVector queries: exact against the Qc model ---- *)
Open Scope Qc_scope.
Definition qc (x : Q) : Qc := Q2Qc x.
Fixpoint qlist_eqb (x y : list Qc) : bool :=
  match x, y with
  | [], [] => true
  | a :: x', b :: y' => qeqb a b && qlist_eqb x' y'
  | _, _ => false
  end.
Fixpoint qlist_close (bound : Qc) (x y : list Qc) : bool :=
  match x, y with
  | [], [] => true
  | a :: x', b :: y' => qleb (qabs (a - b)) bound && qlist_close bound x' y'
  | _, _ => false
  end.
(* |a - b| <= rel * |b| *)
Fixpoint qlist_relclose (rel : Qc) (x y : list Qc) : bool :=
  match x, y with
  | [], [] => true
  | a :: x', b :: y' => qleb (qabs (a - b)) (rel * qabs b) && qlist_relclose rel x' y'
  | _, _ => false
  end.
Fixpoint nlist_eqb (x y : list nat) : bool :=
  match x, y with
  | [], [] => true
  | a :: x', b :: y' => Nat.eqb a b && nlist_eqb x' y'
  | _, _ => false
  end.
Fixpoint plist_eqb (x y : list (nat * nat)) : bool :=
  match x, y with
  | [], [] => true
  | (a, a') :: x', (b, b') :: y' => Nat.eqb a b && Nat.eqb a' b' && plist_eqb x' y'
  | _, _ => false
  end.

Record kvcase := {
  c_p : nat; c_kv : list Q;
  c_spans : list (Q * nat);            (* u, KnotVector.findspan(u) *)
  c_mesh : list Q; c_k2m : list nat; c_numspans : nat; c_numdofs : nat;
  c_msia : list (nat * nat);           (* mesh_support_idx_all *)
  c_msi : list nat;                    (* mesh_span_indices *)
  c_supp : list (Q * Q);               (* support(j), j = 0..numdofs-1 *)
  c_grev : list Q; c_grev_bound : Q;
  c_new : list Q; c_refined : list Q;  (* refine(new_knots).kv *)
  c_urefined : list Q; c_uref_bound : Q;
  c_eq : list (nat * list Q * bool);   (* other.p, other.kv, self == other *)
  c_coeffs : list Q; c_dcoeffs : list Q; c_dkv : list Q; c_drel : Q }.

(* each component of the answer is a separate bit so that a disagreement names it *)
Definition check_kv (c : kvcase) : list bool :=
  let p := c_p c in
  let kv := map qc (c_kv c) in
  [ kv_valid kv;
    forallb (fun us => Nat.eqb (findspan kv p (qc (fst us))) (snd us)) (c_spans c);
    qlist_eqb (mesh kv) (map qc (c_mesh c));
    nlist_eqb (knots_to_mesh kv) (c_k2m c);
    Nat.eqb (numspans kv) (c_numspans c) && Nat.eqb (numdofs kv p) (c_numdofs c);
    plist_eqb (mesh_support_idx_all kv p) (c_msia c)
      && plist_eqb (map (mesh_support_idx kv p) (seq 0 (numdofs kv p))) (c_msia c);
    nlist_eqb (mesh_span_indices kv) (c_msi c);
    qlist_eqb (map (fun j => fst (support kv p j)) (seq 0 (numdofs kv p))) (map (fun s => qc (fst s)) (c_supp c))
      && qlist_eqb (map (fun j => snd (support kv p j)) (seq 0 (numdofs kv p))) (map (fun s => qc (snd s)) (c_supp c));
    qlist_close (qc (c_grev_bound c)) (map qc (c_grev c)) (greville kv p);
    qlist_eqb (refine kv (map qc (c_new c))) (map qc (c_refined c));
    qlist_close (qc (c_uref_bound c)) (map qc (c_urefined c)) (refine_uniform kv);
    forallb (fun o => let '(p2, kv2, ans) := o in Bool.eqb (kv_eq kv p (map qc kv2) p2) ans) (c_eq c);
    match c_coeffs c with
    | [] => true
    | _ => qlist_relclose (qc (c_drel c)) (map qc (c_dcoeffs c)) (derivative_coeffs kv p (map qc (c_coeffs c)))
           && qlist_eqb (derivative_kv kv) (map qc (c_dkv c))
    end ].

Definition case_ok (c : kvcase) : bool := forallb (fun b => b) (check_kv c).

Fixpoint bad_cases {X} (f : X -> bool) (k : nat) (cs : list X) : list nat :=
  match cs with
  | [] => []
  | c :: cs' => if f c then bad_cases f (S k) cs' else k :: bad_cases f (S k) cs'
  end.

(* flat list of 100*case + component for every failing component *)
Fixpoint failing (k j : nat) (bs : list bool) : list nat :=
  match bs with
  | [] => []
  | true :: r => failing k (S j) r
  | false :: r => (100 * k + j)%nat :: failing k (S j) r
  end.
Fixpoint bad_components (k : nat) (cs : list kvcase) : list nat :=
  match cs with
  | [] => []
  | c :: cs' => failing k 0 (check_kv c) ++ bad_components (S k) cs'
  end.
