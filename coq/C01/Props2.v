(* C01 -- property theorems, continued: the emitted program WITH symmetric variables (coq/C01/Kernel3.v).
   Closes the first item of the `NOT PROVED within the model` list of Props.v: `symmetric=True` variables, stored
   through sym_index_to_seq with only the entries i <= j assigned (gen_assign, codegen/cython.py:227-235) and read
   through storage_index (114-123) in either index order, are a case of the program model: wf_prog3 / run_defs3.
   The layout [lay] is injective on (variable, STORED slot) only.  What the theorems need in addition to those of
   Props.v is [sym_promise]: at the node, the defining matrix expression of every symmetric variable has equal
   (i,j) and (j,i) entries -- the user's promise `symmetric=True`; Examples2.v shows it cannot be dropped. *)
From Coq Require Import List String Bool Arith Lia.
From Verif.C06 Require Import Model.
From Verif.C01 Require Import Model Proofs Kernel Kernel2 Kernel3.
Import ListNotations.
Open Scope nat_scope.

Section Layer4Sym.
Variable F : Type.
Variables (f0 : F) (fadd fmul fsub fdiv : F -> F -> F) (fopp : F -> F).
Variable lay : string -> nat -> loc.
Variable shp : string -> list nat.
Variable sz : string -> nat.
Variable symv : string -> bool.
Hypothesis lay_inj : forall n k n' k', lay n k = lay n' k' -> n = n' /\ k = k'.

(* at one Gauss node: kernel_denotes_integrand for forests with symmetric variables *)
Theorem kernel_denotes_integrand_sym : forall nc st en known ds es cs,
  wf_prog3 F f0 lay shp sz symv known ds ->
  sym_promise F f0 fadd fmul fsub fdiv fopp symv en ds ->
  Agree3 F lay shp sz symv st en known -> Ctx F nc en ->
  omap (compile3 F lay shp symv) es = Some cs ->
  Forall (wfe3 F shp sz symv (names_after F known ds)) es ->
  map (ceval F fadd fmul fsub fdiv fopp nc (run_defs3 F f0 fadd fmul fsub fdiv fopp lay shp symv nc st ds)) cs
  = map (eval F fadd fmul fsub fdiv fopp (eval_defs F f0 fadd fmul fsub fdiv fopp en ds)) es.
Proof. exact (kernel_node_sound3 F f0 fadd fmul fsub fdiv fopp lay shp sz symv lay_inj). Qed.

(* one definition: after the emitted assignments of (name, t) every reference var_ref(name, I) -- for a symmetric
   variable in EITHER index order -- reads the C06 value of the entry, and the references to earlier variables still do *)
Theorem gen_assign_sym_establishes_binding : forall nc st en known name t es kcs,
  ~ In name known -> Ctx F nc en -> Agree3 F lay shp sz symv st en known ->
  tentries F t = Some es ->
  omap (compile_kv F lay shp symv) (writes F f0 symv name t es) = Some kcs ->
  Forall (fun ke => wfe3 F shp sz symv known (snd ke)) (writes F f0 symv name t es) ->
  shp name = tshape F t ->
  (symv name = false -> sz name = List.length es) ->
  (symv name = true -> exists m, tshape F t = [m; m] /\ List.length es = m * m) ->
  (symv name = true -> forall i j, i < hd 0 (tshape F t) -> j < hd 0 (tshape F t) ->
     eval F fadd fmul fsub fdiv fopp en (nth (i * hd 0 (tshape F t) + j) es (@Const F f0))
     = eval F fadd fmul fsub fdiv fopp en (nth (j * hd 0 (tshape F t) + i) es (@Const F f0))) ->
  Agree3 F lay shp sz symv (assign_list F fadd fmul fsub fdiv fopp lay nc st name kcs)
         (bind F f0 en name (tshape F t) (map (eval F fadd fmul fsub fdiv fopp en) es)) (name :: known).
Proof. exact (agree3_after_def F f0 fadd fmul fsub fdiv fopp lay shp sz symv lay_inj). Qed.

(* precompute_fields, then the kernel -- precompute_then_kernel_equals_forest for forests with symmetric variables
   (a symmetric variable may be precomputed into fields[] and read by the kernel, or be a local of either phase) *)
Theorem precompute_then_kernel_equals_forest_sym :
  forall (nc nc_pre : nctx F) (st0 st2 : store F) (en : env F) known G pre ker es cs,
  wf_prog3 F f0 lay shp sz symv known pre -> nobf_defs3 F f0 symv pre ->
  incl G (names_after F known pre) -> (forall n k, In n G -> is_glob (lay n k) = true) ->
  wf_prog3 F f0 lay shp sz symv G ker ->
  sym_promise F f0 fadd fmul fsub fdiv fopp symv en (pre ++ ker) ->
  omap (compile3 F lay shp symv) es = Some cs -> Forall (wfe3 F shp sz symv (names_after F G ker)) es ->
  Agree3 F lay shp sz symv st0 en known -> Ctx F nc en ->
  (forall a, gwv F nc_pre a = gwv F nc a) -> (forall f x, fnv F nc_pre f x = fnv F nc f x) ->
  (forall l, is_glob l = true -> st2 l = run_defs3 F f0 fadd fmul fsub fdiv fopp lay shp symv nc_pre st0 pre l) ->
  map (ceval F fadd fmul fsub fdiv fopp nc (run_defs3 F f0 fadd fmul fsub fdiv fopp lay shp symv nc st2 ker)) cs
  = map (eval F fadd fmul fsub fdiv fopp (eval_defs F f0 fadd fmul fsub fdiv fopp en (pre ++ ker))) es.
Proof. exact (precompute_then_kernel_equals_forest3_l F f0 fadd fmul fsub fdiv fopp lay shp sz symv lay_inj). Qed.
End Layer4Sym.
Print Assumptions kernel_denotes_integrand_sym.
Print Assumptions gen_assign_sym_establishes_binding.
Print Assumptions precompute_then_kernel_equals_forest_sym.

(* NOT PROVED within the model (what is left of the list of Props.v):
     - the entry-level statements (entry_denotes_gauss_sum, entry_denotes_full_gauss_sum, ..._component) are stated in
       Props.v for run_defs; their symmetric versions follow from kernel_denotes_integrand_sym by the same two lines
       (entry_impl_as_sum + sum_box_ext) and are not restated;
     - emitted order: precompute_then_kernel_equals_forest(_sym) is stated for "all precomputable definitions, then the
       kernel's"; that this order and the interleaved order of vform.dependency_analysis give the same environment
       is a consequence of C06's schedule_computes_the_denotation (any two accepted schedules of the same definitions
       compute the same variables) -- still not re-stated as a C01 theorem;
     - the boundary variant of __init__ (meshsupp = [[0,1]], C[0:1,0:1,:] / C[-1:,-1:,:], ndofs[bdax] = 1), the on-demand
       constructor (mesh[bb0:bb1+1], bbox_ofs = bb0*nqp; the loop part is bbox_shift_invariant), update()/update_params()
       are NOT modelled: they are exercised by the oracle comparison of harness/props/c01.py only
       (boundary forms on every side, parameters; on-demand assemblers through C03);
     - the input copies of __init__ and the printed characters: as in Props.v. *)
