(* C04 -- the disparity-preserving marking closure (HSpace._mark_recursive / refine :866-869) is
   closed: in the marks actually refined, every active cell in the neighbourhood of the cells
   marked on level l is marked on level l - d.  (The algorithmic half of the admissibility
   argument of Bracco-Giannelli-Vazquez.) *)
From Coq Require Import List Arith Bool Lia.
From Verif.lib Require Import FinSet.
From Verif.C04 Require Import Model Proofs.
Import ListNotations.

Section Closure.
  Variable st : hspace.
  Variable d : nat.
  Variable trunc : bool.
  Hypothesis Hd : 1 <= d.
  Let L := numlevels st.

  Definition nbh (m : list set) (l : nat) : set := cell_neighborhood st d l (mk m l) trunc.
  Definition closed_at (m : list set) (l : nat) : Prop := forall c, In c (nbh m l) -> In c (mk m (l - d)).

  Lemma nbh_ext : forall m1 m2 l, mk m1 l = mk m2 l -> nbh m1 l = nbh m2 l.
  Proof. intros m1 m2 l E. unfold nbh. rewrite E. reflexivity. Qed.

  Lemma rec_closed : forall fuel l m,
    l < fuel -> length m = L -> l < L -> (forall l', l' < l -> closed_at m l') ->
    let m' := mark_recursive fuel st d l trunc m in
    length m' = L /\ (forall k, l <= k -> mk m' k = mk m k) /\
    (forall k c, In c (mk m k) -> In c (mk m' k)) /\
    (forall l', l' <= l -> closed_at m' l').
  Proof.
    induction fuel as [|fuel IH]; intros l m Hf Hlen Hl Hbelow; [lia|].
    cbn [mark_recursive]. fold (nbh m l).
    destruct (is_empty (nbh m l)) eqn:E.
    - split; [auto|]. split; [auto|]. split; [auto|].
      intros l' Hl'. destruct (Nat.eq_dec l' l) as [->|Hne]; [|apply Hbelow; lia].
      intros c Hc. apply is_empty_spec in E. rewrite E in Hc. destruct Hc.
    - assert (Hdl : d <= l).
      { destruct (nbh m l) as [|c0 r] eqn:En; [discriminate|].
        apply (neighborhood_active st d l (mk m l) trunc c0). fold (nbh m l). rewrite En. left; auto. }
      set (m1 := set_nth (l - d) (union (mk m (l - d)) (nbh m l)) m).
      assert (Hlen1 : length m1 = L) by (unfold m1; rewrite length_set_nth; auto).
      assert (Hmk1 : forall k, mk m1 k = if k =? l - d then union (mk m (l - d)) (nbh m l) else mk m k).
      { intros k. unfold m1. apply mk_set_nth. lia. }
      assert (Hbelow1 : forall l', l' < l - d -> closed_at m1 l').
      { intros l' Hl' c Hc. rewrite (nbh_ext m1 m l') in Hc.
        - rewrite Hmk1. assert (E1 : (l' - d =? l - d) = false) by (apply Nat.eqb_neq; lia). rewrite E1.
          apply (Hbelow l'); auto. lia.
        - rewrite Hmk1. assert (E1 : (l' =? l - d) = false) by (apply Nat.eqb_neq; lia). rewrite E1. reflexivity. }
      destruct (IH (l - d) m1 ltac:(lia) Hlen1 ltac:(lia) Hbelow1) as [H1 [H2 [H3 H4]]].
      split; [exact H1|]. split; [|split].
      + intros k Hk. rewrite H2 by lia. rewrite Hmk1.
        assert (E1 : (k =? l - d) = false) by (apply Nat.eqb_neq; lia). rewrite E1. reflexivity.
      + intros k c Hc. apply H3. rewrite Hmk1. destruct (k =? l - d) eqn:Ek; auto.
        apply Nat.eqb_eq in Ek; subst k. apply union_In; auto.
      + intros l' Hl'. destruct (Nat.le_gt_cases l' (l - d)) as [Hc1|Hc1]; [apply H4; auto|].
        assert (Esame : mk (mark_recursive fuel st d (l - d) trunc m1) l' = mk m l').
        { rewrite H2 by lia. rewrite Hmk1.
          assert (E1 : (l' =? l - d) = false) by (apply Nat.eqb_neq; lia). rewrite E1. reflexivity. }
        intros c Hc. rewrite (nbh_ext _ m l' Esame) in Hc.
        destruct (Nat.eq_dec l' l) as [->|Hne].
        * rewrite H2 by lia. rewrite Hmk1. rewrite Nat.eqb_refl. apply union_In; auto.
        * apply H3. rewrite Hmk1. destruct (l' - d =? l - d) eqn:Ek.
          -- apply union_In. left. apply Nat.eqb_eq in Ek. rewrite <- Ek. apply (Hbelow l'); auto. lia.
          -- apply (Hbelow l'); auto. lia.
  Qed.

  Lemma closure_closed_l : forall m, length m = L ->
    forall l, l < L -> closed_at (mark_closure st d trunc m) l.
  Proof.
    intros m Hlen. unfold mark_closure. fold L.
    assert (G : forall n a m0, a + n = L -> length m0 = L -> (forall l', l' < a -> closed_at m0 l') ->
       let r := fold_left (fun m l => mark_recursive (S l) st d l trunc m) (seq a n) m0 in
       forall l', l' < L -> closed_at r l').
    { induction n as [|n IH]; intros a m0 Ha Hl0 Hc0; simpl.
      - intros l' Hl'. apply Hc0. lia.
      - destruct (rec_closed (S a) a m0 ltac:(lia) Hl0 ltac:(lia) Hc0) as [H1 [_ [_ H4]]].
        apply (IH (S a)); auto; try lia. intros l' Hl'. apply H4. lia. }
    intros l Hl. apply (G L 0 m); auto. intros l' Hl'; lia.
  Qed.
End Closure.

(* the marks actually refined by HSpace.refine with finite disparity are closed *)
Lemma hs_refine_closed : forall st raw trunc st' m d,
  hs_disparity st = Some d -> 1 <= d -> hs_refine st raw trunc = Ok (st', m) ->
  exists mx, max_marked_level raw = Some mx /\
    let st1 := ensure_levels st (mx + 2) in
    forall l c, l < numlevels st1 ->
      In c (cell_neighborhood st1 d l (mk m l) trunc) -> In c (mk m (l - d)).
Proof.
  intros st raw trunc st' m d Hdisp Hd H. unfold hs_refine in H.
  destruct (max_marked_level raw) as [mx|]; [|discriminate]. exists mx. split; auto. simpl.
  rewrite disparity_ensure, Hdisp in H. inversion H; subst. clear H.
  intros l c Hl Hc.
  apply (closure_closed_l (ensure_levels st (mx + 2)) d trunc Hd _ (eq_trans (map_length _ _) (seq_length _ _)) l Hl c Hc).
Qed.
