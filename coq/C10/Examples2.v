(* C10 -- non-vacuity of the theorems of Props2.v (tests by vm_compute, labelled as such). *)
From Coq Require Import List Arith Bool ZArith Sorted.
From Verif.lib Require Import Slice.
From Verif.C10 Require Import Model Proofs Proofs2.
Import ListNotations.
Local Open Scope nat_scope.

(* restricted_system_exact: A 3x3 over Z, dofs [2;0] (unsorted) prescribed [7;-1]; x = [-1;2;7] satisfies
   row 1 (the only non-eliminated equation: 1*(-1) + 5*2 + 2*7 = 23) *)
Definition exA : list (list Z) := [[4;1;0];[1;5;2];[0;2;6]]%Z.
Definition exs := rls_init Z 0%Z Z.add Z.mul Z.sub exA 3 (Arr [100;23;-50]%Z) [2;0] (Arr [7;-1]%Z) None.
Example ex_exact_hyp_prescribed : nth 2 [-1;2;7]%Z 0%Z = 7%Z /\ nth 0 [-1;2;7]%Z 0%Z = (-1)%Z.
Proof. split; reflexivity. Qed.
Example ex_exact_hyp_row : dot Z 0%Z Z.add Z.mul (nth 1 exA []) [-1;2;7]%Z = 23%Z.
Proof. vm_compute. reflexivity. Qed.
Example ex_exact_concl : matvec Z 0%Z Z.add Z.mul (r_A Z exs) (rls_restrict Z exs [-1;2;7]%Z) = r_b Z exs
  /\ rls_complete Z 0%Z Z.add exs (rls_restrict Z exs [-1;2;7]%Z) = [-1;2;7]%Z.
Proof. vm_compute. split; reflexivity. Qed.

(* restrict_matrix_entries: rectangular B (2 rows, 3 columns), elim_rows = [0] *)
Definition exs2 := rls_init Z 0%Z Z.add Z.mul Z.sub [[1;2;3];[4;5;6]]%Z 3 (Scalar 0%Z) [1] (Scalar 2%Z) (Some [0]).
Example ex_entries : rls_restrict_matrix Z exs2 [[1;2;3];[4;5;6]]%Z = [[4;6]]%Z /\ free_dofs 3 [1] = [0;2].
Proof. vm_compute. split; reflexivity. Qed.

Example ex_c_order : map (ravel [2;3;2]) (product (map (seq 0) [2;3;2])) = seq 0 12.
Proof. vm_compute. reflexivity. Qed.
Example ex_ravel_2d : nth (ravel [2;3] [1;2]) (concat [[10;11;12];[20;21;22]]) 0 = 22.
Proof. vm_compute. reflexivity. Qed.
