(* C08 -- sparse formats denote the same entries: COO (duplicates summed), CSR (scipy's
   coo_tocsr: stable counting sort by row, then sum_duplicates inside each row), CSC (the same
   on the transposed coordinates).  A.asformat(fmt) in assemble_entries (assemble.py:745-754,
   786, 810) only moves between these.  Model (definitions) and lemmas. *)
From Coq Require Import ZArith List Bool Arith Lia.
From Verif.C08 Require Import Model Proofs.
Import ListNotations.
Local Open Scope Z_scope.

Definition zrange (M : nat) : list Z := map Z.of_nat (seq 0 M).

Section Formats.
  Variable V : Type.
  Variable vzero : V.
  Variable vadd : V -> V -> V.

  Notation coo := (list ((Z * Z) * V)).
  Notation den := (den vzero vadd).

  (* one compressed row: (column, value) in storage order *)
  Definition crow : Type := list (Z * V).
  Definition row_of (r : Z) (T : coo) : crow :=
    map (fun t => (snd (fst t), snd t)) (filter (fun t => fst (fst t) =? r) T).
  (* coo_tocsr: rows 0..M-1, inside a row the COO order is kept *)
  Definition coo_tocsr (M : nat) (T : coo) : list crow := map (fun r => row_of r T) (zrange M).
  (* the triples a CSR structure denotes *)
  Definition csr_triples (A : list crow) : coo :=
    flat_map (fun ra : Z * crow => map (fun cv => ((fst ra, fst cv), snd cv)) (snd ra))
             (combine (zrange (length A)) A).

  (* sum_duplicates of one row: sorted by column, equal columns added (earlier entry first) *)
  Fixpoint ins (j : Z) (v : V) (l : crow) : crow :=
    match l with
    | [] => [(j, v)]
    | (j0, v0) :: l' => if j <? j0 then (j, v) :: l
                        else if j =? j0 then (j0, vadd v v0) :: l'
                        else (j0, v0) :: ins j v l'
    end.
  Definition canon_row (l : crow) : crow := fold_right (fun cv acc => ins (fst cv) (snd cv) acc) [] l.
  Definition row_den (l : crow) (j : Z) : V :=
    fold_right (fun cv acc => if fst cv =? j then vadd (snd cv) acc else acc) vzero l.

  Definition swapT (t : (Z * Z) * V) : (Z * Z) * V := (swap (fst t), snd t).
  (* CSC = CSR of the transposed coordinates *)
  Definition coo_tocsc (N : nat) (T : coo) : list crow := coo_tocsr N (map swapT T).
  Definition csc_triples (A : list crow) : coo := map swapT (csr_triples A).

  (* --------------------------------------------------------------------- *)

  Lemma den_filter : forall (f : (Z * Z) * V -> bool) (T : coo) q,
    (forall t, In t T -> fst t = q -> f t = true) -> den (filter f T) q = den T q.
  Proof.
    induction T as [|t T IH]; intros q H; [reflexivity|]. simpl.
    destruct (pair_eqb (fst t) q) eqn:E.
    - rewrite (H t (or_introl eq_refl)) by (apply pair_eqb_spec, E). simpl. rewrite E.
      f_equal. apply IH. intros t' Ht'. apply H. right; exact Ht'.
    - destruct (f t); simpl; [rewrite E|]; apply IH; intros t' Ht'; apply H; right; exact Ht'.
  Qed.

  Lemma den_row_triples : forall r (T : coo) q,
    den (map (fun cv : Z * V => ((r, fst cv), snd cv)) (row_of r T)) q =
    if fst q =? r then den T q else vzero.
  Proof.
    intros r T q. unfold row_of. rewrite map_map. simpl.
    destruct (fst q =? r) eqn:E.
    - apply Z.eqb_eq in E. rewrite <- (den_filter (fun t => fst (fst t) =? r) T q).
      + induction T as [|t T IH]; [reflexivity|]. simpl.
        destruct (fst (fst t) =? r) eqn:Er; [|exact IH]. simpl. rewrite IH.
        apply Z.eqb_eq in Er. destruct t as [[a b] v]. simpl in *. subst a. reflexivity.
      + intros t _ Ht. rewrite Ht, E. apply Z.eqb_refl.
    - apply (den_notin V vzero vadd). intros t Ht. apply in_map_iff in Ht. destruct Ht as [t' [<- _]]. simpl.
      intro Eq. rewrite <- Eq in E. simpl in E. rewrite Z.eqb_refl in E. discriminate.
  Qed.

  Lemma den_app_eq : forall (A B : coo) q, (forall t, In t A -> fst t <> q) -> den (A ++ B) q = den B q.
  Proof. exact (den_app_notin_l V vzero vadd). Qed.

  Lemma den_rows : forall (rs : list Z) (T : coo) q, NoDup rs ->
    den (flat_map (fun r => map (fun cv : Z * V => ((r, fst cv), snd cv)) (row_of r T)) rs) q =
    if existsb (Z.eqb (fst q)) rs then den T q else vzero.
  Proof.
    induction rs as [|r rs IH]; intros T q Hnd; [reflexivity|]. inversion Hnd as [|? ? Hnin Hnd']; subst.
    simpl. destruct (fst q =? r) eqn:E.
    - simpl. rewrite (den_app_notin_r V vzero vadd).
      + rewrite den_row_triples, E. reflexivity.
      + intros t Ht. apply in_flat_map in Ht. destruct Ht as [r' [Hr' Ht]].
        apply in_map_iff in Ht. destruct Ht as [cv [<- _]]. simpl. intro Eq. apply Hnin.
        apply Z.eqb_eq in E. rewrite <- E, <- Eq. simpl. exact Hr'.
    - simpl. rewrite den_app_eq; [apply IH, Hnd'|].
      intros t Ht. apply in_map_iff in Ht. destruct Ht as [cv [<- _]]. simpl. intro Eq.
      rewrite <- Eq in E. simpl in E. rewrite Z.eqb_refl in E. discriminate.
  Qed.

  Lemma zrange_nodup : forall M, NoDup (zrange M).
  Proof.
    intro M. unfold zrange. apply NoDup_map_inj; [intros x y H; apply Nat2Z.inj, H | apply seq_NoDup].
  Qed.

  Lemma zrange_mem : forall M z, existsb (Z.eqb z) (zrange M) = true <-> 0 <= z < Z.of_nat M.
  Proof.
    intros M z. rewrite existsb_exists. unfold zrange. split.
    - intros [x [Hx E]]. apply Z.eqb_eq in E. subst. apply in_map_iff in Hx. destruct Hx as [n [<- Hn]].
      apply in_seq in Hn. lia.
    - intro H. exists z. split; [|apply Z.eqb_refl]. apply in_map_iff. exists (Z.to_nat z).
      split; [lia | apply in_seq; lia].
  Qed.

  Lemma csr_triples_tocsr : forall M (T : coo),
    csr_triples (coo_tocsr M T) =
    flat_map (fun r => map (fun cv : Z * V => ((r, fst cv), snd cv)) (row_of r T)) (zrange M).
  Proof.
    intros M T. unfold csr_triples, coo_tocsr. rewrite map_length.
    assert (El : length (zrange M) = M) by (unfold zrange; rewrite map_length, seq_length; reflexivity).
    rewrite El. clear El. generalize (zrange M). intro rs.
    induction rs as [|r rs IH]; [reflexivity|]. simpl. rewrite IH. reflexivity.
  Qed.

  (* COO -> CSR keeps the denoted matrix (rows inside the shape) *)
  Theorem coo_csr_same_l : forall M (T : coo) q,
    (forall t, In t T -> 0 <= fst (fst t) < Z.of_nat M) ->
    den (csr_triples (coo_tocsr M T)) q = den T q.
  Proof.
    intros M T q Hr. rewrite csr_triples_tocsr, den_rows by apply zrange_nodup.
    destruct (existsb (Z.eqb (fst q)) (zrange M)) eqn:E; [reflexivity|].
    symmetry. apply (den_notin V vzero vadd). intros t Ht Eq.
    assert (existsb (Z.eqb (fst q)) (zrange M) = true) by (apply zrange_mem; rewrite <- Eq; apply Hr, Ht).
    congruence.
  Qed.

  Lemma den_swapT : forall (T : coo) q, den (map swapT T) (swap q) = den T q.
  Proof.
    induction T as [|t T IH]; intro q; [reflexivity|]. simpl. rewrite IH.
    replace (pair_eqb (swap (fst t)) (swap q)) with (pair_eqb (fst t) q); [reflexivity|].
    destruct t as [[a b] v], q as [c d]. unfold pair_eqb, swap. simpl. apply andb_comm.
  Qed.

  (* COO -> CSC keeps the denoted matrix (columns inside the shape) *)
  Theorem coo_csc_same_l : forall N (T : coo) q,
    (forall t, In t T -> 0 <= snd (fst t) < Z.of_nat N) ->
    den (csc_triples (coo_tocsc N T)) q = den T q.
  Proof.
    intros N T q Hc. unfold csc_triples, coo_tocsc.
    transitivity (den (csr_triples (coo_tocsr N (map swapT T))) (swap q)).
    { rewrite <- (den_swapT _ (swap q)). rewrite swap_swap. reflexivity. }
    rewrite coo_csr_same_l; [apply den_swapT|].
    intros t Ht. apply in_map_iff in Ht. destruct Ht as [t' [<- Ht']]. simpl. apply Hc, Ht'.
  Qed.

  Theorem format_irrelevant_partial_l : forall M N (T : coo) q,
    (forall t, In t T -> 0 <= fst (fst t) < Z.of_nat M /\ 0 <= snd (fst t) < Z.of_nat N) ->
    den (csr_triples (coo_tocsr M T)) q = den T q /\ den (csc_triples (coo_tocsc N T)) q = den T q.
  Proof.
    intros M N T q H. split; [apply coo_csr_same_l | apply coo_csc_same_l]; intros t Ht; apply (H t Ht).
  Qed.

  (* sum_duplicates: only associativity of the addition is used (no commutativity: the
     stored order of equal columns is kept) *)
  Hypothesis vadd_assoc : forall a b c, vadd (vadd a b) c = vadd a (vadd b c).

  Lemma row_den_ins : forall l j v j',
    row_den (ins j v l) j' = if j =? j' then vadd v (row_den l j') else row_den l j'.
  Proof.
    induction l as [|[j0 v0] l IH]; intros j v j'; simpl; [reflexivity|].
    destruct (j <? j0) eqn:E1; [reflexivity|].
    destruct (j =? j0) eqn:E2.
    - apply Z.eqb_eq in E2. subst j0. simpl. destruct (j =? j') eqn:E3; [apply vadd_assoc | reflexivity].
    - simpl. rewrite IH. destruct (j0 =? j') eqn:E4; [|reflexivity].
      destruct (j =? j') eqn:E3; [|reflexivity].
      apply Z.eqb_eq in E3, E4. subst. rewrite Z.eqb_refl in E2. discriminate.
  Qed.

  Theorem sum_duplicates_same_l : forall l j, row_den (canon_row l) j = row_den l j.
  Proof.
    induction l as [|[j0 v0] l IH]; intro j; [reflexivity|].
    simpl. rewrite row_den_ins, IH. reflexivity.
  Qed.

  (* after sum_duplicates a row has strictly increasing columns: one stored entry per coordinate *)
  Fixpoint strictly_sorted (l : crow) : Prop :=
    match l with
    | [] => True
    | (j0, _) :: l' => (match l' with [] => True | (j1, _) :: _ => j0 < j1 end) /\ strictly_sorted l'
    end.

  Lemma ins_sorted : forall l j v, strictly_sorted l -> strictly_sorted (ins j v l).
  Proof.
    induction l as [|[j0 v0] l IH]; intros j v H; simpl; [auto|].
    destruct (j <? j0) eqn:E1.
    - apply Z.ltb_lt in E1. simpl. split; [exact E1 | exact H].
    - destruct (j =? j0) eqn:E2; [exact H|].
      apply Z.ltb_ge in E1. apply Z.eqb_neq in E2. destruct H as [H1 H2].
      split; [|apply IH, H2].
      destruct l as [|[j1 v1] l']; simpl; [lia|].
      destruct (j <? j1); [lia|]. destruct (j =? j1); [exact H1 | exact H1].
  Qed.

  Theorem canon_row_sorted_l : forall l, strictly_sorted (canon_row l).
  Proof. induction l as [|[j v] l IH]; simpl; [exact I | apply ins_sorted, IH]. Qed.
End Formats.
