"""C13 translator (second one): which attributes does the code generator READ?

The cache theorems of coq/C13 are relative to `gen`: the generated source is a function of the
keyed content of a form.  This walker collects, fail-closed, every attribute read
(`x.a` in load position, `hasattr/getattr(x, 'a')`) in

    pyiga/codegen/cython.py   (CodegenVisitor, AsmGenerator and subclasses, helper functions)
    pyiga/vform.py            (VForm.finalize and everything else in the module: constructors,
                               the passes, the expression helpers)

and attributes each read to the modelled classes (subclasses of Expr, AsmVar, BasisFun, InputField,
Parameter, VForm):

  * `self.a` inside a modelled class C           -> a read of C.a
  * `x.a` for any other receiver                 -> a read of C.a for EVERY modelled class C that has
                                                    an attribute `a` (assigned on self anywhere in C,
                                                    or assigned from outside as `y.a = ...`)
  * a name that no modelled class has must be a method/property/class constant of a class of the two
    files, an attribute of one of the generator's own classes (CodeGen, AsmGenerator, ...), a module
    attribute (receiver bound by `import`), or a method of a builtin container / numpy array
    (list taken from the interpreter, see FOREIGN); anything else is UNRESOLVED.

Attribute access that cannot be read off the syntax raises TranslateError: getattr/hasattr/setattr
with a non-literal name, `__dict__`, vars(), delattr, `__getattr__`/`__getattribute__`/`__slots__`
definitions, `globals()`/`locals()`, exec/eval.

The result (read sets per class, constructor attributes, attributes assigned after construction =
"late", e.g. what VForm.finalize computes) is written to coq/gen/C13_ReadSets.v together with the
obligations
    reads_within expr_reads current_table = true       (Expr classes: read set minus shape/children
                                                         is inside the code-relevant list of the key table)
    subset <record reads> (<record key> ++ <derived> ++ <late>) = true     per record class
    unresolved = []
which Coq evaluates on every run (coq/C13/ReadSets.v holds the definitions and the theorem that turns
them into `equal key => equal generated code` for a generator that reads nothing else).
"""
import ast
import builtins
import json
import os

from translate.exprclasses import TranslateError, _clist, _cs

HERE = os.path.dirname(os.path.abspath(__file__))

RECORDS = ('AsmVar', 'BasisFun', 'InputField', 'Parameter', 'VForm')
STRUCTURAL = ('shape', 'children')          # enter Expr.hash directly (type(self), self.shape, child hashes)

# methods/attributes of builtin containers, strings, numbers, slices and numpy arrays
FOREIGN = set()
for _t in (str, list, dict, tuple, set, frozenset, int, float, bool, slice, range, type, object):
    FOREIGN |= {n for n in dir(_t)}
FOREIGN |= {'ravel', 'flat', 'T', 'dot', 'astype', 'tolist', 'ndim', 'size', 'dtype', 'reshape', 'item', 'flatten', 'shape'}
# networkx.DiGraph methods (VForm.dependency_graph / transitive closure) and jinja2.Template.render
FOREIGN |= {'add_nodes_from', 'add_node', 'add_edge', 'in_edges', 'remove_edges_from', 'render'}
FORBIDDEN_CALLS = ('setattr', 'vars', 'delattr', 'globals', 'locals', 'exec', 'eval', '__import__')
FORBIDDEN_ATTRS = ('__dict__', '__getattribute__', '__getattr__', '__slots__', '__class__')
# module-level functions that BUILD a form from user text before it is hashed or compiled (the string is evaluated
# with the public vform API; what they produce is an ordinary VForm whose content is what the key is about)
FRONTEND = ('parse_vf', '_check_input_field')
# generate_generic(dim) renders the jinja2 template of genericasm.pxi with its own locals (DIM, dimrepeat, indent):
# no form object is in scope there
ALLOWED_CALLS = {('codegen/cython.py', 'generate_generic'): ('locals',)}
FORBIDDEN_DEFS = ('__getattr__', '__getattribute__', '__setattr__', '__delattr__')


def _mangle(cls, a):
    return a


class _File:
    def __init__(self, path, label):
        self.label = label
        self.tree = ast.parse(open(path).read())
        self.classes = {c.name: c for c in self.tree.body if isinstance(c, ast.ClassDef)}
        for c in ast.walk(self.tree):
            if isinstance(c, ast.ClassDef) and c.name not in self.classes:
                raise TranslateError('%s: nested class %s' % (label, c.name))
        self.modules = set()        # names bound by import statements
        for n in ast.walk(self.tree):
            if isinstance(n, ast.Import):
                for a in n.names:
                    self.modules.add((a.asname or a.name).split('.')[0])
            elif isinstance(n, ast.ImportFrom):
                for a in n.names:
                    self.modules.add(a.asname or a.name)


def analyse(repo):
    vf = _File(os.path.join(repo, 'pyiga', 'vform.py'), 'vform.py')
    cg = _File(os.path.join(repo, 'pyiga', 'codegen', 'cython.py'), 'codegen/cython.py')
    files = (vf, cg)
    classes = {}
    for f in files:
        for n, c in f.classes.items():
            if n in classes:
                raise TranslateError('class %s defined in both files' % n)
            classes[n] = c

    def bases(name):
        out = []
        for b in classes[name].bases:
            nm = b.id if isinstance(b, ast.Name) else (b.attr if isinstance(b, ast.Attribute) else None)
            if nm in classes:
                out.append(nm)
        return out

    def mro(name, seen=()):
        out = [name]
        for b in bases(name):
            if b not in seen:
                out += mro(b, seen + (name,))
        return out

    def is_expr(name):
        return name != 'Expr' and 'Expr' in mro(name)

    modelled = [n for n in classes if is_expr(n)] + [r for r in RECORDS if r in classes]
    for r in RECORDS:
        if r not in classes:
            raise TranslateError('class %s not found' % r)

    # ---- attributes assigned on self, per class; methods / class constants ------------------
    own, ctor, members = {}, {}, {}
    for n, c in classes.items():
        own[n], ctor[n], members[n] = set(), set(), set()
        for f in c.body:
            if isinstance(f, (ast.FunctionDef, ast.AsyncFunctionDef)):
                if f.name in FORBIDDEN_DEFS and not (n == 'VForm' and f.name == '__getattr__'):
                    raise TranslateError('%s defines %s' % (n, f.name))
                members[n].add(f.name)
                for st in ast.walk(f):
                    if isinstance(st, ast.Attribute) and isinstance(st.ctx, (ast.Store, ast.Del)) \
                            and isinstance(st.value, ast.Name) and st.value.id == 'self':
                        own[n].add(st.attr)
                        if f.name == '__init__':
                            ctor[n].add(st.attr)
            elif isinstance(f, ast.Assign):
                for t in f.targets:
                    for x in ast.walk(t):
                        if isinstance(x, ast.Name):
                            members[n].add(x.id)
            elif isinstance(f, ast.AnnAssign) and isinstance(f.target, ast.Name):
                members[n].add(f.target.id)

    def attrs_of(name):
        s = set()
        for k in mro(name):
            s |= own[k]
        return s

    def members_of(name):
        s = set()
        for k in mro(name):
            s |= members[k]
        return s

    # ---- VForm.__getattr__: names that are not attributes are looked up in self.vars (-> as_expr), then in
    #      the constant table self.predefined_vars (whose generator functions are part of vform.py and are walked
    #      like everything else).  Such a read is a read of VForm.vars and VForm.predefined_vars.
    ga = [f for f in classes['VForm'].body if isinstance(f, ast.FunctionDef) and f.name == '__getattr__']
    predefined = set()
    if ga:
        body = [st for st in ga[0].body if not (isinstance(st, ast.Expr) and isinstance(st.value, ast.Constant))]
        ok = (len(body) == 1 and isinstance(body[0], ast.If) and ast.unparse(body[0].test) == 'name in self.vars'
              and ast.unparse(body[0].body[0]) == 'return self.vars[name].as_expr'
              and len(body[0].orelse) == 1 and isinstance(body[0].orelse[0], ast.If)
              and ast.unparse(body[0].orelse[0].test) == 'name in self.predefined_vars'
              and body[0].orelse[0].orelse and isinstance(body[0].orelse[0].orelse[-1], ast.Raise))
        if not ok:
            raise TranslateError('VForm.__getattr__ is no longer the lookup in self.vars / self.predefined_vars')
        init = [f for f in classes['VForm'].body if isinstance(f, ast.FunctionDef) and f.name == '__init__'][0]
        tb = [st for st in ast.walk(init) if isinstance(st, ast.Assign) and len(st.targets) == 1
              and ast.unparse(st.targets[0]) == 'self.predefined_vars']
        if len(tb) != 1 or not isinstance(tb[0].value, ast.Dict) or not all(isinstance(k, ast.Constant) and isinstance(k.value, str) for k in tb[0].value.keys):
            raise TranslateError('VForm.predefined_vars is no longer a dict display with literal keys')
        predefined = {k.value for k in tb[0].value.keys}

    # ---- attributes assigned from outside: `x.a = ...` with x not self ------------------------
    external = {}       # attribute -> [where]
    for f in files:
        for st in ast.walk(f.tree):
            if isinstance(st, ast.Attribute) and isinstance(st.ctx, (ast.Store, ast.Del)) \
                    and not (isinstance(st.value, ast.Name) and st.value.id == 'self'):
                external.setdefault(st.attr, []).append('%s:%d' % (f.label, st.lineno))
    late_ext = {n: set() for n in modelled}
    for a, where in sorted(external.items()):
        owners = [n for n in modelled if a in attrs_of(n)]
        other = [n for n in classes if n not in modelled and a in attrs_of(n)]
        if not owners and not other:
            raise TranslateError('attribute %s is assigned from outside (%s) on an object of unknown class' % (a, where[0]))
        for n in owners:
            late_ext[n].add(a)

    # ---- reads -----------------------------------------------------------------------------
    reads = {n: set() for n in modelled}
    reads['Expr'] = set()
    unresolved = []
    all_members = set()
    for n in classes:
        all_members |= members[n]
    foreign_attrs = set()
    for n in classes:
        if n not in modelled and n != 'Expr':
            foreign_attrs |= own[n]
    nreads = [0]

    def by_name(a, base, f, where):
        owners = [n for n in modelled if a in attrs_of(n)]
        if owners:
            for n in owners:
                reads[n].add(a)
            return
        if a in all_members or a in foreign_attrs:
            return
        if a in predefined:
            reads['VForm'] |= {'vars', 'predefined_vars'}
            return
        if isinstance(base, ast.Name) and base.id in f.modules:
            return
        if isinstance(base, ast.Attribute) and isinstance(base.value, ast.Name) and base.value.id in f.modules:
            return          # np.random.x, os.path.x
        if a in FOREIGN:
            return
        unresolved.append((where, a))

    def read(cls, base, a, f, lineno):
        nreads[0] += 1
        where = '%s:%d' % (f.label, lineno)
        if a in FORBIDDEN_ATTRS:
            raise TranslateError('%s: reflective attribute %s' % (where, a))
        if isinstance(base, ast.Name) and base.id == 'self' and cls is not None:
            if cls in modelled:
                if a in attrs_of(cls) or a in late_ext.get(cls, ()):
                    reads[cls].add(a)
                elif a in members_of(cls):
                    pass
                elif cls == 'VForm' and a in predefined:
                    reads['VForm'] |= {'vars', 'predefined_vars'}
                else:
                    unresolved.append((where, '%s.%s' % (cls, a)))
                return
            if cls == 'Expr':
                if a in STRUCTURAL:
                    reads['Expr'].add(a)
                    return
                if a in members_of(cls):
                    return
                return by_name(a, base, f, where)
            if a in attrs_of(cls) or a in members_of(cls):
                return
            return by_name(a, base, f, where)
        by_name(a, base, f, where)

    def walk(node, cls, f, fn_name=None):
        if isinstance(node, ast.FunctionDef) and fn_name is None:
            fn_name = node.name
        for ch in ast.iter_child_nodes(node):
            if isinstance(ch, ast.ClassDef):
                walk(ch, ch.name, f)
                continue
            if isinstance(ch, ast.FunctionDef) and cls is None and node is f.tree and ch.name in FRONTEND:
                continue
            if isinstance(ch, ast.Attribute) and isinstance(ch.ctx, ast.Load):
                read(cls, ch.value, ch.attr, f, ch.lineno)
            elif isinstance(ch, ast.Call) and isinstance(ch.func, ast.Name):
                fn = ch.func.id
                if fn in FORBIDDEN_CALLS and fn not in ALLOWED_CALLS.get((f.label, fn_name), ()):
                    raise TranslateError('%s:%d: call of %s' % (f.label, ch.lineno, fn))
                if fn in ('getattr', 'hasattr'):
                    if len(ch.args) < 2 or not (isinstance(ch.args[1], ast.Constant) and isinstance(ch.args[1].value, str)):
                        raise TranslateError('%s:%d: %s with a computed attribute name' % (f.label, ch.lineno, fn))
                    read(cls, ch.args[0], ch.args[1].value, f, ch.lineno)
            walk(ch, cls, f, fn_name)

    for f in files:
        walk(f.tree, None, f)

    for n in modelled:
        if 'Expr' in mro(n) and n != 'Expr':
            reads[n] |= reads['Expr']
    out = {
        'classes': {},
        'unresolved': sorted(set(unresolved)),
        'attribute_reads_seen': nreads[0],
    }
    for n in sorted(modelled):
        a = attrs_of(n)
        c = set()
        for k in mro(n):
            c |= ctor[k]
        out['classes'][n] = {
            'reads': sorted(reads[n]),
            'ctor': sorted(c),
            'late': sorted(((a - c) | late_ext[n]) - (set(STRUCTURAL) if is_expr(n) else set())),
            'is_expr': is_expr(n),
        }
    return out


def to_coq(rs, tr):
    """rs = analyse(repo), tr = exprclasses.translate(repo).  -> (definitions text, obligations)"""
    derived = json.load(open(os.path.join(HERE, 'exprclasses_derived.json')))['derived']
    L = ['(* generated by translate/c13_readsets.py from pyiga/codegen/cython.py and pyiga/vform.py -- do not edit *)',
         'From Coq Require Import String.', 'From Coq Require Import List Bool.',
         'From Verif.C13 Require Import Model Spec ReadSets.', 'Import ListNotations.', 'Open Scope string_scope.', '']
    rows = []
    for n, c in sorted(rs['classes'].items()):
        if c['is_expr']:
            rows.append('  (%s, %s)' % (_cs(n), _clist(_cs(a) for a in c['reads'])))
    L.append('Definition expr_reads : list (string * list string) := [\n' + ';\n'.join(rows) + '].')
    L.append('Definition expr_late : list (string * list string) := %s.' % _clist(
        '(%s, %s)' % (_cs(n), _clist(_cs(a) for a in c['late'])) for n, c in sorted(rs['classes'].items()) if c['is_expr'] and c['late']))
    obl = [('expr_reads_code_relevant', 'reads_within expr_reads current_table = true'),
           ('expr_no_late_attributes', 'expr_late = nil'),
           ('expr_reads_all_classes', 'same_classes expr_reads current_table = true')]
    short = {'BasisFun': 'bf', 'InputField': 'in', 'Parameter': 'pa', 'AsmVar': 'var', 'VForm': 'form'}
    r = tr['records']
    for n in RECORDS:
        c = rs['classes'][n]
        s = short[n]

        def mg(a, n=n):
            # the key tables of exprclasses.py write VForm's private attributes with their source spelling
            return a
        if n == 'VForm':
            key = r['VForm']['scalars'] + r['VForm']['segments']
        else:
            key = r[n]['key']
        L.append('Definition rd_%s_reads : list string := %s.' % (s, _clist(_cs(a) for a in c['reads'])))
        L.append('Definition rd_%s_key : list string := %s.' % (s, _clist(_cs(a) for a in key)))
        L.append('Definition rd_%s_derived : list string := %s.' % (s, _clist(_cs(a) for a in sorted(derived.get(n, {})))))
        L.append('Definition rd_%s_late : list string := %s.' % (s, _clist(_cs(a) for a in c['late'])))
        obl.append(('%s_reads_determined' % s, 'subset rd_%s_reads (rd_%s_key ++ rd_%s_derived ++ rd_%s_late) = true' % (s, s, s, s)))
    L.append('Definition unresolved : list (string * string) := %s.' % _clist('(%s, %s)' % (_cs(w), _cs(a)) for w, a in rs['unresolved']))
    obl.append(('no_unresolved_reads', 'unresolved = nil'))
    L.append('')
    return '\n'.join(L), obl


if __name__ == '__main__':
    import sys
    rs = analyse(sys.argv[1] if len(sys.argv) > 1 else '/repo')
    print(json.dumps(rs, indent=1))
