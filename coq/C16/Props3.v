(* C16 -- property theorems, third file.  Same conventions as Props.v: every theorem is closed by
   [exact] of a lemma (Proofs5.v, Proofs6.v) and followed by Print Assumptions.

   Adjoints: the carrier is a commutative ring with a conjugation [conj] that is a ring endomorphism
   (conj 0 = 0, conj 1 = 1, additive, multiplicative) -- the complex numbers, the Gaussian integers
   (used by the correspondence run, Cases3.v) and, with conj = id, every real carrier. *)
From Coq Require Import List Arith Bool Ring.
From Verif.C16 Require Import Model Model2 Model3 Proofs Proofs2 Proofs5 Proofs6.
Import ListNotations.

Section Props3.
Variable R : Type.
Variables (rO rI : R) (radd rmul rsub : R -> R -> R) (ropp : R -> R).
Variable Rth : ring_theory rO rI radd rmul rsub ropp eq.
Variable conj : R -> R.
Hypothesis conj0 : conj rO = rO.
Hypothesis conj1 : conj rI = rI.
Hypothesis conj_add : forall a b, conj (radd a b) = radd (conj a) (conj b).
Hypothesis conj_mul : forall a b, conj (rmul a b) = rmul (conj a) (conj b).

Local Notation kron_ent := (Proofs2.kron_ent R rI rmul).
Local Notation kron_dense := (Proofs2.kron_dense R rI rmul).
Local Notation sumn := (Model.sumn R rO radd).
Local Notation omats ops := (map (omat R) ops).
Local Notation orows ops := (map (fun o => mrows R (omat R o)) ops).
Local Notation ocols ops := (map (fun o => mcols R (omat R o)) ops).

(* KroneckerOperator._adjoint (operators.py:101-102, _adjoint_of l.15-19): on either dispatch branch,
   for operands of any kind and shape, .H acts like the conjugate transpose of np.kron of the
   operands; vectors ... *)
Theorem kron_adjoint : forall (ops : list (operand R)) (x : arr R) i,
  ashape R x = [prodl (orows ops)] -> i < prodl (ocols ops) ->
  aat R (kronecker_operator_H R rO radd rmul conj ops x) [i] =
  sumn (prodl (orows ops)) (fun j => rmul (ment R (mH R conj (kron_dense (omats ops))) i j) (aat R x [j])).
Proof. exact (kron_adjoint_vec_l R rO rI radd rmul rsub ropp Rth conj conj1 conj_mul). Qed.

(* ... and (N,m) arguments *)
Theorem kron_adjoint_multi : forall (ops : list (operand R)) (x : arr R) m i c,
  ashape R x = [prodl (orows ops); m] -> i < prodl (ocols ops) -> c < m ->
  aat R (kronecker_operator_H R rO radd rmul conj ops x) [i; c] =
  sumn (prodl (orows ops)) (fun j => rmul (ment R (mH R conj (kron_dense (omats ops))) i j) (aat R x [j; c])).
Proof. exact (kron_adjoint_mat_l R rO rI radd rmul rsub ropp Rth conj conj1 conj_mul). Qed.

(* BaseBlockOperator._adjoint (operators.py:131-134) denotes the conjugate transpose of the sum of the
   placed blocks (any overlaps, any order) -- BlockOperator and BlockDiagonalOperator *)
Theorem block_adjoint : forall M N bl r c,
  ment R (blocks_dense R rO radd N M (map (placed_H R conj) bl)) c r =
  ment R (mH R conj (blocks_dense R rO radd M N bl)) c r.
Proof. exact (block_adjoint_l R rO radd conj conj0 conj_add). Qed.

(* DiagonalOperator._adjoint (operators.py:70-73): DiagonalOperator(diag.conj()) is the conjugate transpose *)
Theorem diag_adjoint : forall n d i j,
  ment R (diag_dense R rO n (fun k => conj (d k))) i j = ment R (mH R conj (diag_dense R rO n d)) i j.
Proof. exact (diag_adjoint_l R rO conj conj0). Qed.

Theorem diag_adjoint_spec : forall n d x i, i < n ->
  diagonal_H_matvec R rmul conj d x i = mv R rO radd rmul (mH R conj (diag_dense R rO n d)) x i.
Proof. exact (diag_adjoint_spec_l R rO rI radd rmul rsub ropp Rth conj conj0). Qed.

(* the adjoint is an involution when conj is (.H.H chains) *)
Theorem adjoint_involutive : (forall a, conj (conj a) = a) ->
  forall A i j, ment R (mH R conj (mH R conj A)) i j = ment R A i j.
Proof. exact (mH_involutive_l R conj). Qed.

(* BlockOperator (operators.py:154-194) INCLUDING its fallback `NullOperator(shape)` when every block is
   null: on both branches the operator acts like np.block of the grid with zero blocks *)
Theorem block_operator_apply_spec : forall grid hs ws x r, wf_grid R grid hs ws ->
  block_operator_apply R rO radd rmul grid hs ws x r = mv R rO radd rmul (grid_dense R rO grid hs ws) x r.
Proof. exact (block_operator_apply_l R rO rI radd rmul rsub ropp Rth). Qed.

(* DiagonalOperator._matvec/_matmat for a 2-D argument (operators.py:58-65): diag[:,None] * X = diag(d) . X *)
Theorem diag_matmat_spec : forall n d (X : mat R) i c, i < n -> mrows R X = n ->
  ment R (diagonal_matmat R rmul d X) i c = ment R (mmul R rO radd rmul (diag_dense R rO n d) X) i c.
Proof. exact (diag_matmat_l R rO rI radd rmul rsub ropp Rth). Qed.

(* fastdiag_solver's operator l_op * DiagonalOperator(1/diag) * r_op (solvers.py:39-42) IS the explicit
   matrix kron(U_k) diag(dinv) kron(U_k)^T -- for every list of square U_k of any kind and every dinv,
   no eigen-contract needed; this is the statement the exact correspondence run exercises (Cases3.v) *)
Theorem fastdiag_apply_spec : forall (Us : list (operand R)) (dinv : nat -> R) (x : arr R),
  ocols Us = orows Us -> ashape R x = [prodl (orows Us)] ->
  forall i, i < prodl (orows Us) ->
  aat R (fastdiag_apply R rO radd rmul Us dinv x) [i] =
  sumn (prodl (orows Us)) (fun c => rmul (kron_ent (omats Us) i c)
     (rmul (dinv c) (sumn (prodl (orows Us)) (fun l => rmul (kron_ent (omats Us) l c) (aat R x [l]))))).
Proof. exact (fastdiag_apply_dense_l R rO rI radd rmul rsub ropp Rth). Qed.

Theorem fastdiag_apply_spec_multi : forall (Us : list (operand R)) (dinv : nat -> R) (x : arr R) m,
  ocols Us = orows Us -> ashape R x = [prodl (orows Us); m] ->
  forall i k, i < prodl (orows Us) -> k < m ->
  aat R (fastdiag_apply_mat R rO radd rmul Us dinv x) [i; k] =
  sumn (prodl (orows Us)) (fun c => rmul (kron_ent (omats Us) i c)
     (rmul (dinv c) (sumn (prodl (orows Us)) (fun l => rmul (kron_ent (omats Us) l c) (aat R x [l; k]))))).
Proof. exact (fastdiag_apply_mat_dense_l R rO rI radd rmul rsub ropp Rth). Qed.

(* apply_tprod (tensor.py:97-128): an identity placeholder (None, `rollaxis` step l.127) acts exactly
   like a dense identity matrix of the size of its axis -- for every number of operands and
   placeholders in any positions, rectangular operands of any kind, any number of trailing axes *)
Theorem apply_tprod_placeholders : forall ops (X : arr R) sS sT,
  ashape R X = sS ++ sT -> conf R ops sS ->
  forall a t, inr a (out_shape R ops sS) -> inr t sT ->
  aat R (apply_tprod R rO radd rmul ops X) (a ++ t) =
  aat R (apply_tprod R rO radd rmul (fill_eye R rO rI ops sS) X) (a ++ t).
Proof. exact (apply_tprod_placeholders_l R rO rI radd rmul rsub ropp Rth). Qed.

End Props3.

(* for real carriers (conj = id) the adjoint is the transpose: the .H theorems specialise to the
   .T theorems of Props.v *)
Theorem adjoint_real_is_transpose : forall (R : Type) (A : mat R) i j,
  ment R (mH R (fun a => a) A) i j = ment R (mT R A) i j.
Proof. exact mH_real_l. Qed.

Print Assumptions kron_adjoint.
Print Assumptions kron_adjoint_multi.
Print Assumptions block_adjoint.
Print Assumptions diag_adjoint.
Print Assumptions diag_adjoint_spec.
Print Assumptions adjoint_involutive.
Print Assumptions block_operator_apply_spec.
Print Assumptions diag_matmat_spec.
Print Assumptions fastdiag_apply_spec.
Print Assumptions fastdiag_apply_spec_multi.
Print Assumptions apply_tprod_placeholders.
Print Assumptions adjoint_real_is_transpose.

(* NOT PROVED (after this round):
   - the contracts of make_solver / scipy.linalg.eigh themselves (LAPACK, SuperLU): numerical residual
     check only; the correspondence run now feeds the implementation's own U_k, 1/diag to the model as
     exact rationals (Cases3.v, FD cases) and compares the APPLICATION step: exactly when the U_k are
     monomial with power-of-two entries, otherwise within the rounding bound of the operation count;
   - complex operands: only KroneckerOperator on its tensordot branch (all ndarrays, or a rectangular
     factor) and DiagonalOperator accept them in the code (the column-major sweeps and the
     block/subspace accumulators allocate float64 buffers); these are in the correspondence run
     over the Gaussian integers.  SubspaceOperator._adjoint is the transpose by its documented
     restriction to real P_j, B_j. *)
