(* C17 -- proofs. *)
From Coq Require Import QArith Qcanon ZArith List Arith Bool Lia.
From Verif.lib Require Import Bsp.
From Verif.C17 Require Import Model Spec.
Import ListNotations.
Open Scope Qc_scope.

(* ------------------------------------------------------------------ *)
(* finite sums *)

Lemma fold_right_plus_acc l a : fold_right Qcplus a l = fold_right Qcplus 0 l + a.
Proof. induction l as [|x l IH]; simpl; [ring | rewrite IH; ring]. Qed.

Lemma sumn_S n f : sumn (S n) f = sumn n f + f n.
Proof.
  unfold sumn. rewrite seq_S, map_app, fold_right_app. simpl.
  rewrite fold_right_plus_acc. ring.
Qed.

Lemma sumn_0 f : sumn 0 f = 0.
Proof. reflexivity. Qed.

Lemma sumn_ext n f g : (forall i, (i < n)%nat -> f i = g i) -> sumn n f = sumn n g.
Proof.
  induction n as [|n IH]; intros H; [reflexivity|].
  rewrite !sumn_S, IH, (H n) by (intros; try apply H; lia). reflexivity.
Qed.

Lemma sumn_add n f g : sumn n (fun i => f i + g i) = sumn n f + sumn n g.
Proof. induction n as [|n IH]; [rewrite !sumn_0; ring | rewrite !sumn_S, IH; ring]. Qed.

Lemma sumn_scal n c f : sumn n (fun i => c * f i) = c * sumn n f.
Proof. induction n as [|n IH]; [rewrite !sumn_0; ring | rewrite !sumn_S, IH; ring]. Qed.

Lemma sumn_zero n : sumn n (fun _ => 0) = 0.
Proof. induction n as [|n IH]; [reflexivity | rewrite sumn_S, IH; ring]. Qed.

Lemma sumn_swap n m (f : nat -> nat -> Qc) :
  sumn n (fun i => sumn m (fun j => f i j)) = sumn m (fun j => sumn n (fun i => f i j)).
Proof.
  induction n as [|n IH].
  - rewrite sumn_0. symmetry. rewrite (sumn_ext m _ (fun _ => 0)); [apply sumn_zero | reflexivity].
  - rewrite sumn_S, IH.
    rewrite (sumn_ext m (fun j => sumn (S n) (fun i => f i j))
                        (fun j => sumn n (fun i => f i j) + f n j)) by (intros j _; exact (sumn_S n (fun i => f i j))).
    rewrite sumn_add. reflexivity.
Qed.

Lemma sumn_delta n i f : (i < n)%nat -> sumn n (fun j => delta i j * f j) = f i.
Proof.
  induction n as [|n IH]; intros H; [lia|].
  rewrite sumn_S. unfold delta at 2. destruct (Nat.eqb_spec i n) as [->|Hne].
  - rewrite (sumn_ext n _ (fun _ => 0)), sumn_zero; [ring|].
    intros j Hj. unfold delta. destruct (Nat.eqb_spec n j); [lia | ring].
  - rewrite IH by lia. ring.
Qed.

(* ------------------------------------------------------------------ *)
(* tprod: extensionality, the loop of tensor.py, linearity, composition, identity *)

Lemma tprod_ext_len Bs : forall f g idx,
  (length Bs <= length idx)%nat -> (forall i, length i = length idx -> f i = g i) ->
  tprod Bs f idx = tprod Bs g idx.
Proof.
  induction Bs as [|B Bs IH]; intros f g idx HL H; simpl.
  - apply H. reflexivity.
  - destruct idx as [|i idx]; [reflexivity|]. simpl in HL.
    apply sumn_ext. intros j _. f_equal. apply IH; [lia|].
    intros r Hr. apply H. simpl. congruence.
Qed.

Lemma tprod_ext Bs : forall f g idx, (forall i, f i = g i) -> tprod Bs f idx = tprod Bs g idx.
Proof.
  induction Bs as [|B Bs IH]; intros f g idx H; simpl; [apply H|].
  destruct idx as [|i idx]; [reflexivity|].
  apply sumn_ext. intros j _. f_equal. apply IH. intros r. apply H.
Qed.

Lemma insert_at_app k x (l1 l2 : list nat) : length l1 = k -> insert_at k x (l1 ++ l2) = l1 ++ x :: l2.
Proof.
  intros <-. unfold insert_at.
  rewrite firstn_app, Nat.sub_diag, firstn_all, skipn_app, Nat.sub_diag, skipn_all. simpl.
  rewrite app_nil_r. reflexivity.
Qed.

(* invariant of the loop: after the last |Post| operators have been applied the tensor has
   the |Post| new axes first, then the m axes not yet contracted, then the trailing axes *)
Lemma loop_inv n : forall Post m f ipost jpre t,
  n = (m + length Post)%nat -> length ipost = length Post -> length jpre = m ->
  fold_left (fun g B => tprod_step n B g) (rev Post) f (ipost ++ jpre ++ t)
  = tprod Post (fun rest => f (jpre ++ rest)) (ipost ++ t).
Proof.
  induction Post as [|B Post IH]; intros m f ipost jpre t Hn Hi Hj.
  - destruct ipost; [reflexivity | discriminate].
  - destruct ipost as [|a ipost]; [discriminate|]. simpl in Hi, Hn.
    simpl rev. rewrite fold_left_app. simpl.
    apply sumn_ext. intros j _. f_equal.
    rewrite app_assoc, insert_at_app by (rewrite app_length; lia).
    replace ((ipost ++ jpre) ++ j :: t) with (ipost ++ (jpre ++ [j]) ++ t)
      by (rewrite <- !app_assoc; reflexivity).
    rewrite (IH (S m)) by (try rewrite app_length; simpl; lia).
    apply tprod_ext. intros r. rewrite <- app_assoc. reflexivity.
Qed.

Lemma tprod_loop_spec_l Bs f idx :
  (length Bs <= length idx)%nat -> tprod_loop Bs f idx = tprod Bs f idx.
Proof.
  intros H. unfold tprod_loop.
  rewrite <- (firstn_skipn (length Bs) idx) at 1 2.
  pose proof (loop_inv (length Bs) Bs 0 f (firstn (length Bs) idx) [] (skipn (length Bs) idx)) as L.
  simpl in L. rewrite L; [reflexivity | reflexivity | | reflexivity].
  rewrite firstn_length. lia.
Qed.

Lemma tprod_lin As : forall m (c : nat -> Qc) (g : nat -> tens) idx,
  tprod As (fun r => sumn m (fun k => c k * g k r)) idx = sumn m (fun k => c k * tprod As (g k) idx).
Proof.
  induction As as [|A As IH]; intros m c g idx; simpl; [reflexivity|].
  destruct idx as [|i idx].
  - rewrite (sumn_ext m _ (fun _ => 0)) by (intros; ring). rewrite sumn_zero. reflexivity.
  - rewrite (sumn_ext (oc A) _ (fun j => sumn m (fun k => c k * (oe A i j * tprod As (fun rest => g k (j :: rest)) idx)))).
    + rewrite sumn_swap. apply sumn_ext. intros k _. rewrite sumn_scal. reflexivity.
    + intros j _. rewrite (IH m c (fun k rest => g k (j :: rest))).
      rewrite <- sumn_scal. apply sumn_ext. intros k _. ring.
Qed.

Lemma tprod_compose_l As : forall Bs f idx,
  length As = length Bs -> tprod As (tprod Bs f) idx = tprod (mul_list As Bs) f idx.
Proof.
  induction As as [|A As IH]; intros Bs f idx HL; destruct Bs as [|B Bs]; try discriminate; [reflexivity|].
  simpl in HL. unfold mul_list. simpl. fold (mul_list As Bs).
  destruct idx as [|i idx]; [reflexivity|].
  rewrite (sumn_ext (oc A) _ (fun j => sumn (oc B) (fun k =>
            oe A i j * oe B j k * tprod (mul_list As Bs) (fun r => f (k :: r)) idx))).
  - rewrite sumn_swap. apply sumn_ext. intros k _.
    transitivity (tprod (mul_list As Bs) (fun r => f (k :: r)) idx * sumn (oc A) (fun j => oe A i j * oe B j k));
      [rewrite <- sumn_scal; apply sumn_ext; intros j _; ring | simpl; ring].
  - intros j _.
    rewrite (tprod_lin As (oc B) (fun k => oe B j k) (fun k => tprod Bs (fun r => f (k :: r))) idx).
    rewrite <- sumn_scal. apply sumn_ext. intros k _. rewrite IH by lia. ring.
Qed.

Lemma tprod_id_l shape As : Forall2 is_id shape As ->
  forall f idx, inrange shape idx -> tprod As f idx = f idx.
Proof.
  induction 1 as [|n A shape As [Hc He] _ IH]; intros f idx Hr; [reflexivity|].
  destruct idx as [|i idx]; [destruct Hr|]. destruct Hr as [Hi Hr]. simpl.
  rewrite Hc.
  rewrite (sumn_ext n _ (fun j => delta i j * f (j :: idx))).
  - apply sumn_delta. exact Hi.
  - intros j Hj. rewrite He by assumption. rewrite IH by assumption. reflexivity.
Qed.

Lemma is_id_b_sound n A : is_id_b n A = true -> is_id n A.
Proof.
  unfold is_id_b, is_id. rewrite andb_true_iff, Nat.eqb_eq, forallb_forall.
  intros [Hc H]. split; [exact Hc|]. intros i j Hi Hj.
  specialize (H i ltac:(apply in_seq; lia)). rewrite forallb_forall in H.
  specialize (H j ltac:(apply in_seq; lia)).
  unfold qeqb in H. apply Qeq_bool_iff in H. apply Qc_is_canon. exact H.
Qed.

(* trailing axes are independent: component t of the result only depends on component t of the data *)
Lemma tprod_componentwise_l Bs : forall f i t,
  length i = length Bs -> tprod Bs f (i ++ t) = tprod Bs (fun i' => f (i' ++ t)) i.
Proof.
  induction Bs as [|B Bs IH]; intros f i t HL.
  - destruct i; [reflexivity | discriminate].
  - destruct i as [|a i]; [discriminate|]. simpl in HL. simpl.
    apply sumn_ext. intros j _. f_equal. rewrite IH by lia. reflexivity.
Qed.

(* ------------------------------------------------------------------ *)
(* interpolation *)

Lemma interp_reproduces_l shape Ss Cs c idx :
  length Ss = length Cs -> Forall2 is_id shape (mul_list Ss Cs) ->
  inrange shape idx -> (length Ss <= length idx)%nat ->
  tprod_loop Ss (tprod Cs c) idx = c idx.
Proof.
  intros HL Hid Hr Hlen.
  rewrite tprod_loop_spec_l by assumption.
  rewrite tprod_compose_l by assumption.
  apply (tprod_id_l shape); assumption.
Qed.

Lemma interp_matches_nodes_l nshape Cs Ss rhs idx :
  length Cs = length Ss -> Forall2 is_id nshape (mul_list Cs Ss) ->
  inrange nshape idx -> (length Ss <= length idx)%nat ->
  tprod Cs (tprod_loop Ss rhs) idx = rhs idx.
Proof.
  intros HL Hid Hr Hlen.
  rewrite (tprod_ext_len Cs _ (tprod Ss rhs) idx) by
    (try lia; intros i Hi; apply tprod_loop_spec_l; lia).
  rewrite tprod_compose_l by assumption.
  apply (tprod_id_l nshape); assumption.
Qed.

Lemma interp_componentwise_l Ss rhs i t :
  length i = length Ss ->
  tprod_loop Ss rhs (i ++ t) = tprod_loop Ss (fun i' => rhs (i' ++ t)) i.
Proof.
  intros HL. rewrite !tprod_loop_spec_l by (try rewrite app_length; lia).
  apply tprod_componentwise_l. exact HL.
Qed.

Lemma physical_equals_pullback_l Ss f grid geo :
  tprod_loop Ss (grid_eval_transformed f grid geo) = tprod_loop Ss (grid_eval (compose f geo) grid).
Proof. reflexivity. Qed.
