(* C18 -- proofs, second part: the greedy truncation loop, the rotate-and-contract loop of
   apply_tprod, squeeze / __getitem__, Tucker -> canonical, pad, operator slicing, the generator. *)
From Coq Require Import List Arith Bool ZArith Lia Ring Permutation.
From Verif.C18 Require Import Model Proofs.
Import ListNotations.

Section RingProofs2.
Variable R : Type.
Variables (rO rI : R) (radd rmul rsub : R -> R -> R) (ropp : R -> R).
Variable Rth : ring_theory rO rI radd rmul rsub ropp (@eq R).
Add Ring Rring2 : Rth.

Local Notation "0" := rO.
Local Notation "1" := rI.
Local Infix "+" := radd.
Local Infix "*" := rmul.
Local Infix "-" := rsub.
Local Notation "- x" := (ropp x).

Local Notation rsum := (Model.rsum R rO radd).
Local Notation sumn := (Model.sumn R rO radd).
Local Notation mat := (Model.mat R).
Local Notation full := (Model.full R).
Local Notation me := (Model.me R).
Local Notation mc := (Model.mc R).
Local Notation mr := (Model.mr R).
Local Notation fe := (Model.fe R).
Local Notation fsh := (Model.fsh R).
Local Notation cterm := (Model.cterm R rI rmul).
Local Notation centry := (Model.centry R rO rI radd rmul).
Local Notation crank := (Model.crank R).
Local Notation tprod := (Model.tprod R rO radd rmul).
Local Notation tentry := (Model.tentry R rO radd rmul).
Local Notation kterm := (Model.kterm R rI rmul).
Local Notation kentry := (Model.kentry R rO rI radd rmul).
Local Notation ksum := (Proofs.ksum R rO radd).

(* lemmas of Proofs.v with the ring fixed *)
Local Notation rsum_app := (Proofs.rsum_app R rO rI radd rmul rsub ropp Rth).
Local Notation rsum_map_ext := (Proofs.rsum_map_ext R rO radd).
Local Notation rsum_map_add := (Proofs.rsum_map_add R rO rI radd rmul rsub ropp Rth).
Local Notation sumn_ext := (Proofs.sumn_ext R rO radd).
Local Notation sumn_split := (Proofs.sumn_split R rO rI radd rmul rsub ropp Rth).
Local Notation sumn_zero := (Proofs.sumn_zero R rO rI radd rmul rsub ropp Rth).
Local Notation sumn_add := (Proofs.sumn_add R rO rI radd rmul rsub ropp Rth).
Local Notation sumn_mul_l := (Proofs.sumn_mul_l R rO rI radd rmul rsub ropp Rth).
Local Notation sumn_mul_r := (Proofs.sumn_mul_r R rO rI radd rmul rsub ropp Rth).
Local Notation sumn_delta := (Proofs.sumn_delta R rO rI radd rmul rsub ropp Rth).
Local Notation tprod_ext := (Proofs.tprod_ext R rO radd rmul).
Local Notation tprod_scale := (Proofs.tprod_scale R rO rI radd rmul rsub ropp Rth).
Local Notation tprod_sumn := (Proofs.tprod_sumn R rO rI radd rmul rsub ropp Rth).
Local Notation tprod_zero := (Proofs.tprod_zero R rO rI radd rmul rsub ropp Rth).

(* ------------------------------------------------------------------ *)
(* find_truncation_rank                                                *)
(* ------------------------------------------------------------------ *)
Variable rltb : R -> R -> bool.
Local Notation sqnorm := (Model.sqnorm R rO radd rmul).
Local Notation slice_sq := (Model.slice_sq R rO radd rmul).
Local Notation argmin_aux := (Model.argmin_aux R rltb).
Local Notation best_axis := (Model.best_axis R rO radd rmul rltb).
Local Notation trunc_loop := (Model.trunc_loop R rO radd rmul rltb).

Lemma rsum_flat_map {A B} (F : A -> list B) (g : B -> R) l :
  rsum (map g (flat_map F l)) = rsum (map (fun x => rsum (map g (F x))) l).
Proof.
  induction l as [|x l IH]; simpl; [reflexivity|]. rewrite map_app, rsum_app, IH. reflexivity.
Qed.

(* splitting one factor of a product of ranges splits the sum *)
Lemma rsum_product_app (pre : list (list nat)) : forall l1 l2 post (g : list nat -> R),
  rsum (map g (product (pre ++ (l1 ++ l2) :: post)))
  = rsum (map g (product (pre ++ l1 :: post))) + rsum (map g (product (pre ++ l2 :: post))).
Proof.
  induction pre as [|a pre IH]; intros l1 l2 post g; simpl.
  - rewrite flat_map_app, map_app, rsum_app. reflexivity.
  - rewrite !rsum_flat_map. rewrite <- rsum_map_add. apply rsum_map_ext. intros x _.
    rewrite !map_map. apply (IH l1 l2 post (fun r => g (x :: r))).
Qed.

Lemma shape_split (shape : list nat) ax :
  ax < length shape -> shape = firstn ax shape ++ nth ax shape 0%nat :: skipn (S ax) shape.
Proof.
  revert ax. induction shape as [|n shape IH]; intros [|ax] H; simpl in *; try lia; [reflexivity|].
  f_equal. apply IH. lia.
Qed.

(* cutting the last slice off axis ax removes exactly its squared norm *)
Lemma sqnorm_dec_axis shape f ax :
  ax < length shape -> nth ax shape 0%nat <> 0%nat ->
  sqnorm shape f = sqnorm (dec_axis shape ax) f + slice_sq shape f ax.
Proof.
  intros Hax Hn. unfold Model.sqnorm, Model.slice_sq, Model.last_slice, Model.dec_axis, ndindex.
  destruct (nth ax shape 0%nat) as [|m] eqn:E; [congruence|].
  assert (Hs : map (seq 0) shape
               = map (seq 0) (firstn ax shape) ++ (seq 0 m ++ [m]) :: map (seq 0) (skipn (S ax) shape)).
  { rewrite (shape_split shape ax Hax) at 1. rewrite E, map_app. cbn [map]. rewrite seq_S. reflexivity. }
  rewrite Hs. rewrite map_app. simpl. replace (m - 0)%nat with m by lia.
  apply (rsum_product_app (map (seq 0) (firstn ax shape)) (seq 0 m) [m]).
Qed.

Lemma argmin_aux_spec : forall vs best bestv k a v (d : R),
  argmin_aux best bestv k vs = (a, v) ->
  (a = best /\ v = bestv) \/ (k <= a < k + length vs /\ v = nth (a - k) vs d).
Proof.
  induction vs as [|w vs IH]; intros best bestv k a v d H; simpl in *.
  - inversion H; auto.
  - destruct (rltb w bestv).
    + destruct (IH _ _ _ _ _ d H) as [[-> ->]|[Hr ->]].
      * right. split; [lia|]. replace (k - k)%nat with 0%nat by lia. reflexivity.
      * right. split; [lia|]. destruct (a - k)%nat as [|q] eqn:Eq; [lia|].
        replace (a - S k)%nat with q by lia. reflexivity.
    + destruct (IH _ _ _ _ _ d H) as [[-> ->]|[Hr ->]]; [left; auto|].
      right. split; [lia|]. destruct (a - k)%nat as [|q] eqn:Eq; [lia|].
      replace (a - S k)%nat with q by lia. reflexivity.
Qed.

Lemma best_axis_spec shape f ax e2 :
  shape <> [] -> best_axis shape f = (ax, e2) -> ax < length shape /\ e2 = slice_sq shape f ax.
Proof.
  intros Hne H. unfold Model.best_axis in H.
  destruct shape as [|n shape]; [congruence|].
  cbn [length seq map] in H.
  destruct (argmin_aux_spec _ _ _ _ _ _ 0 H) as [[-> ->]|[Hr ->]].
  - split; [simpl; lia|reflexivity].
  - rewrite map_length, seq_length in Hr. split; [simpl; lia|].
    rewrite (nth_indep _ 0 (slice_sq (n :: shape) f 0%nat)) by (rewrite map_length, seq_length; lia).
    rewrite map_nth, seq_nth by lia. f_equal. lia.
Qed.

Lemma existsb_zero_false (shape : list nat) ax :
  existsb (Nat.eqb 0) shape = false -> ax < length shape -> nth ax shape 0%nat <> 0%nat.
Proof.
  intros H Hax E. assert (In (nth ax shape 0%nat) shape) by (apply nth_In; exact Hax).
  rewrite E in H0. assert (existsb (Nat.eqb 0) shape = true).
  { apply existsb_exists. exists 0%nat. split; [exact H0|reflexivity]. }
  congruence.
Qed.

Lemma trunc_loop_S fuel shape f tolsq total :
  trunc_loop (S fuel) shape f tolsq total =
  match shape with
  | [] => (shape, total)
  | _ => if existsb (Nat.eqb 0) shape then (shape, total)
         else let '(ax, e2) := best_axis shape f in
              let total' := total + e2 in
              if rltb tolsq total' then (shape, total)
              else trunc_loop fuel (dec_axis shape ax) f tolsq total'
  end.
Proof. reflexivity. Qed.

(* the loop invariant: (squared norm still present) + (accumulated error) is constant, and the
   accumulated error of the slices cut off never tests greater than tol^2 *)
Lemma trunc_loop_inv : forall fuel shape f tolsq total shape' total',
  trunc_loop fuel shape f tolsq total = (shape', total') ->
  sqnorm shape f + total = sqnorm shape' f + total' /\
  (rltb tolsq total = false -> rltb tolsq total' = false).
Proof.
  induction fuel as [|fuel IH]; intros shape f tolsq total shape' total' H.
  - simpl in H. inversion H; subst. auto.
  - rewrite trunc_loop_S in H. destruct shape as [|n shape]; [inversion H; subst; auto|].
    destruct (existsb (Nat.eqb 0) (n :: shape)) eqn:Ez; [inversion H; subst; auto|].
    destruct (best_axis (n :: shape) f) as [ax e2] eqn:Eb.
    assert (Hne : n :: shape <> []) by discriminate.
    destruct (best_axis_spec _ _ _ _ Hne Eb) as [Hax ->].
    cbv zeta in H.
    destruct (rltb tolsq (total + slice_sq (n :: shape) f ax)) eqn:Et; [inversion H; subst; auto|].
    destruct (IH _ _ _ _ _ _ H) as [I1 I2]. split.
    + rewrite <- I1. rewrite (sqnorm_dec_axis (n :: shape) f ax Hax (existsb_zero_false _ _ Ez Hax)). ring.
    + intros _. apply I2. exact Et.
Qed.

(* find_truncation_rank never discards more than tol^2: the squared Frobenius norm outside the
   returned shape is exactly the accumulated error e, and [tol^2 < e] is false *)
Lemma truncation_bound (X : full) tolsq shape' e :
  rltb tolsq 0 = false ->
  Model.find_truncation_rank R rO radd rmul rltb X tolsq = (shape', e) ->
  sqnorm (fsh X) (fe X) = sqnorm shape' (fe X) + e /\ rltb tolsq e = false.
Proof.
  intros H0 H. unfold Model.find_truncation_rank in H.
  destruct (trunc_loop_inv _ _ _ _ _ _ _ H) as [I1 I2]. split; [|auto].
  rewrite <- I1. ring.
Qed.

(* ------------------------------------------------------------------ *)
(* the loop of apply_tprod (tensor.py:119-128) computes the multi-way product *)
(* ------------------------------------------------------------------ *)
Local Notation tprod_step := (Model.tprod_step R rO radd rmul).
Local Notation tprod_loop := (Model.tprod_loop R rO radd rmul).

Lemma firstn_skipn_exact {A} (L tr : list A) m :
  length L = m -> firstn m (L ++ tr) = L /\ skipn m (L ++ tr) = tr.
Proof.
  intros <-. split.
  - rewrite firstn_app, Nat.sub_diag, firstn_all. simpl. apply app_nil_r.
  - rewrite skipn_app, Nat.sub_diag, skipn_all. reflexivity.
Qed.

(* invariant after the operators [post] (the last |post| ones) have been processed:
   the processed axes A sit in front, the unprocessed ones Xp behind them, then the trailing axes *)
Lemma tprod_loop_inv n (f : list nat -> R) : forall post A Xp tr,
  length A = length post -> (length Xp + length post = n)%nat ->
  fold_left (fun g ob => tprod_step n ob g) (rev post) f (A ++ Xp ++ tr)
  = tprod post (fun rest => f (Xp ++ rest)) (A ++ tr).
Proof.
  induction post as [|ob post IH]; intros A Xp tr HA Hn.
  - destruct A; [|discriminate]. reflexivity.
  - destruct A as [|a A]; [discriminate|]. simpl in HA, Hn.
    simpl rev. rewrite fold_left_app. simpl fold_left.
    set (G := fold_left (fun g ob0 => tprod_step n ob0 g) (rev post) f).
    assert (HG : forall j, G (insert_at (n - 1) j (A ++ Xp ++ tr))
                           = tprod post (fun rest => f (Xp ++ j :: rest)) (A ++ tr)).
    { intros j. unfold insert_at.
      destruct (firstn_skipn_exact (A ++ Xp) tr (n - 1)) as [F Sk].
      { rewrite app_length. lia. }
      rewrite app_assoc, F, Sk, <- app_assoc.
      replace (Xp ++ j :: tr) with ((Xp ++ [j]) ++ tr) by (rewrite <- app_assoc; reflexivity).
      unfold G. rewrite (IH A (Xp ++ [j]) tr) by (try rewrite app_length; simpl; lia).
      apply tprod_ext. intros J. rewrite <- app_assoc. reflexivity. }
    simpl. destruct ob as [B|].
    + apply sumn_ext. intros j _. f_equal. apply HG.
    + apply HG.
Qed.

Lemma tprod_loop_spec Bs f idx :
  length Bs <= length idx -> tprod_loop Bs f idx = tprod Bs f idx.
Proof.
  intros H. unfold Model.tprod_loop.
  pose proof (tprod_loop_inv (length Bs) f Bs (firstn (length Bs) idx) [] (skipn (length Bs) idx)) as P.
  cbn [app] in P. rewrite firstn_skipn in P. rewrite P.
  - apply tprod_ext. reflexivity.
  - rewrite firstn_length. lia.
  - reflexivity.
Qed.

(* ------------------------------------------------------------------ *)
(* CanonicalOperator.slice (tensor.py:1250-1254)                       *)
(* ------------------------------------------------------------------ *)
Lemma kterm_slice term : forall (lims : list (nat * nat)) I J,
  length lims = length term ->
  kterm (map (fun p => Model.mat_sub_block R (fst p) (fst (snd p)) (snd (snd p))) (combine term lims)) I J
  = kterm term (add_idx I (map fst lims)) (add_idx J (map fst lims)).
Proof.
  induction term as [|A term IH]; intros [|[lo hi] lims] I J HL; simpl in *; try discriminate.
  - destruct I, J; reflexivity.
  - destruct I as [|i I], J as [|j J]; simpl; try reflexivity.
    rewrite IH by lia. rewrite (Nat.add_comm lo i), (Nat.add_comm lo j). reflexivity.
Qed.

(* entry (I,J) of asmatrix(A.slice(limits)) is entry (lo+I, lo+J) of asmatrix(A) *)
Lemma canop_slice_spec Op lims I J :
  Forall (fun t => length t = length lims) Op ->
  kentry (Model.canop_slice R Op lims) I J
  = kentry Op (add_idx I (map fst lims)) (add_idx J (map fst lims)).
Proof.
  intros H. unfold Model.kentry, Model.canop_slice. rewrite map_map.
  apply rsum_map_ext. intros t Ht. rewrite Forall_forall in H.
  apply kterm_slice. symmetry. apply H. exact Ht.
Qed.

(* ------------------------------------------------------------------ *)
(* pad (tensor.py:237-258)                                             *)
(* ------------------------------------------------------------------ *)
Local Notation pad_mat := (Model.pad_mat R rO rI).

Lemma sumn_pad n b a i (g : nat -> R) :
  sumn n (fun j => me (pad_mat n b a) i j * g j)
  = if (b <=? i)%nat && (i - b <? n)%nat then g (i - b)%nat else 0.
Proof.
  simpl. destruct (Nat.leb_spec b i); simpl.
  - destruct (Nat.ltb_spec (i - b) n).
    + rewrite (sumn_ext _ _ (fun j => if ((i - b) =? j)%nat then g j else 0)).
      * apply sumn_delta. assumption.
      * intros j _. destruct ((i - b) =? j)%nat; ring.
    + apply sumn_zero. intros j Hj. destruct (Nat.eqb_spec (i - b) j); [lia|ring].
  - apply sumn_zero. intros j _. ring.
Qed.

Definition pad_ops_of (widths : list (option (nat * nat))) (shape : list nat) : list (option mat) :=
  map (fun p => match fst p with None => None | Some (b, a) => Some (pad_mat (snd p) b a) end) (combine widths shape).
Definition pad_before (widths : list (option (nat * nat))) : list nat :=
  map (fun w => match w with None => 0%nat | Some (b, _) => b end) widths.

(* apply_tprod with the padding matrices = np.pad with zeros: entry idx is X[idx - before] inside the
   original block and 0 outside *)
Lemma pad_tprod widths : forall shape (f : list nat -> R) idx,
  length shape = length widths -> length idx = length widths ->
  (forall J, all_lt J shape = false -> f J = 0) ->
  tprod (pad_ops_of widths shape) f idx
  = if all_ge idx (pad_before widths) && all_lt (sub_idx idx (pad_before widths)) shape
    then f (sub_idx idx (pad_before widths)) else 0.
Proof.
  induction widths as [|w widths IH]; intros [|n shape] f [|i idx] HS HI Hf; simpl in HS, HI; try discriminate.
  - reflexivity.
  - assert (IHj : forall j, tprod (pad_ops_of widths shape) (fun rest => f (j :: rest)) idx
                 = if all_ge idx (pad_before widths) && all_lt (sub_idx idx (pad_before widths)) shape
                   then f (j :: sub_idx idx (pad_before widths)) else 0).
    { intros j. apply IH; [lia|lia|]. intros J HJ. apply Hf. simpl. rewrite HJ. apply andb_false_r. }
    unfold pad_ops_of, pad_before. cbn [map combine fst snd].
    fold (pad_before widths). fold (pad_ops_of widths shape).
    set (C := all_ge idx (pad_before widths) && all_lt (sub_idx idx (pad_before widths)) shape) in *.
    set (S' := sub_idx idx (pad_before widths)) in *.
    destruct w as [[b a]|]; cbn [Model.tprod all_ge all_lt sub_idx].
    + rewrite (sumn_ext _ _ (fun j => me (pad_mat n b a) i j * (if C then f (j :: S') else 0)))
        by (intros j _; rewrite IHj; reflexivity).
      rewrite sumn_pad. subst C S'.
      destruct (b <=? i)%nat, (i - b <? n)%nat, (all_ge idx (pad_before widths)),
               (all_lt (sub_idx idx (pad_before widths)) shape);
        simpl; reflexivity.
    + rewrite IHj. replace (i - 0)%nat with i by lia. subst C S'.
      destruct (i <? n)%nat eqn:E, (all_ge idx (pad_before widths)),
               (all_lt (sub_idx idx (pad_before widths)) shape); simpl; try reflexivity.
      apply Hf. simpl. rewrite E. reflexivity.
Qed.

Local Notation canon_nway_spec := (Proofs.canon_nway_spec R rO rI radd rmul rsub ropp Rth).
Local Notation tucker_nway_spec := (Proofs.tucker_nway_spec R rO rI radd rmul rsub ropp Rth).

Lemma pad_ops_full (Bs : list (option mat)) d : length Bs = d -> pad_ops R Bs d = Bs.
Proof. intros <-. unfold pad_ops. rewrite Nat.sub_diag. simpl. apply app_nil_r. Qed.

Lemma pad_ops_of_length widths shape : length shape = length widths -> length (pad_ops_of widths shape) = length widths.
Proof. intros H. unfold pad_ops_of. rewrite map_length, combine_length. lia. Qed.

(* pad of a canonical / Tucker tensor expands to the padded full array *)
Lemma pad_canon_spec widths (A : list mat) idx :
  length A = length widths -> length idx = length widths ->
  (forall J, all_lt J (Model.cshape R A) = false -> centry A J = 0) ->
  centry (Model.factors_nway R rO radd rmul (pad_ops_of widths (Model.cshape R A)) A) idx
  = if all_ge idx (pad_before widths) && all_lt (sub_idx idx (pad_before widths)) (Model.cshape R A)
    then centry A (sub_idx idx (pad_before widths)) else 0.
Proof.
  intros HA HI Hf.
  assert (HL : length (Model.cshape R A) = length widths) by (unfold Model.cshape; rewrite map_length; exact HA).
  rewrite canon_nway_spec by (rewrite ?pad_ops_of_length; lia).
  rewrite pad_ops_full by (rewrite pad_ops_of_length; lia).
  apply pad_tprod; assumption.
Qed.

Lemma pad_tucker_spec widths (Us : list mat) X idx :
  length Us = length widths -> length idx = length widths ->
  (forall J, all_lt J (Model.tshape R Us) = false -> tentry Us X J = 0) ->
  tentry (Model.factors_nway R rO radd rmul (pad_ops_of widths (Model.tshape R Us)) Us) X idx
  = if all_ge idx (pad_before widths) && all_lt (sub_idx idx (pad_before widths)) (Model.tshape R Us)
    then tentry Us X (sub_idx idx (pad_before widths)) else 0.
Proof.
  intros HA HI Hf.
  assert (HL : length (Model.tshape R Us) = length widths) by (unfold Model.tshape; rewrite map_length; exact HA).
  rewrite tucker_nway_spec by (rewrite ?pad_ops_of_length; lia).
  rewrite pad_ops_full by (rewrite pad_ops_of_length; lia).
  apply pad_tprod; assumption.
Qed.

(* ------------------------------------------------------------------ *)
(* squeeze and __getitem__ of a canonical tensor (tensor.py:816-844)   *)
(* ------------------------------------------------------------------ *)
Lemma memb_In k l : memb k l = true <-> In k l.
Proof.
  unfold memb. rewrite existsb_exists. split.
  - intros [x [Hx E]]. apply Nat.eqb_eq in E. subst. exact Hx.
  - intros H. exists k. split; [exact H|apply Nat.eqb_refl].
Qed.

(* positional versions: the factors kept / multiplied up, scanning the axes k, k+1, ... *)
Fixpoint keep {A} (k : nat) (Ys : list A) (axes : list nat) : list A :=
  match Ys with
  | [] => []
  | Y :: Ys' => if memb k axes then keep (S k) Ys' axes else Y :: keep (S k) Ys' axes
  end.
Fixpoint sqpos (k : nat) (Ys : list mat) (axes : list nat) (r : nat) : R :=
  match Ys with
  | [] => 1
  | Y :: Ys' => if memb k axes then me Y 0%nat r * sqpos (S k) Ys' axes r else sqpos (S k) Ys' axes r
  end.

Lemma cterm_unsqueeze Ys : forall k axes idx r,
  length idx = length (keep k Ys axes) ->
  cterm Ys (unsqueeze_aux k (length Ys) axes idx) r = sqpos k Ys axes r * cterm (keep k Ys axes) idx r.
Proof.
  induction Ys as [|Y Ys IH]; intros k axes idx r HL; simpl in *.
  - ring.
  - destruct (memb k axes).
    + simpl. rewrite IH by exact HL. ring.
    + destruct idx as [|i idx]; [discriminate|]. simpl in *. rewrite IH by lia. ring.
Qed.

Lemma keep_pick {A} (d0 : A) (Ys : list A) : forall pre axes,
  keep (length pre) Ys axes
  = map (fun i => nth i (pre ++ Ys) d0) (filter (fun i => negb (memb i axes)) (seq (length pre) (length Ys))).
Proof.
  induction Ys as [|Y Ys IH]; intros pre axes; simpl; [reflexivity|].
  assert (E : nth (length pre) (pre ++ Y :: Ys) d0 = Y).
  { rewrite app_nth2, Nat.sub_diag by lia. reflexivity. }
  specialize (IH (pre ++ [Y]) axes). rewrite app_length in IH. simpl in IH.
  replace (length pre + 1)%nat with (S (length pre)) in IH by lia.
  rewrite <- app_assoc in IH. simpl in IH.
  destruct (memb (length pre) axes); simpl.
  - exact IH.
  - rewrite E, IH. reflexivity.
Qed.

Lemma keep_is_pick {A} (d0 : A) (Xs : list A) axes :
  keep 0 Xs axes = pick Xs (remaining (length Xs) axes) d0.
Proof. pose proof (keep_pick d0 Xs [] axes) as P. cbn [length app] in P. exact P. Qed.

(* products over a list of axes do not depend on the order *)
Definition rprodl (g : nat -> R) (l : list nat) : R := fold_right (fun i acc => g i * acc) 1 l.

Lemma rprodl_perm g l1 l2 : Permutation l1 l2 -> rprodl g l1 = rprodl g l2.
Proof.
  induction 1; simpl; try ring.
  - rewrite IHPermutation. reflexivity.
  - rewrite IHPermutation1. exact IHPermutation2.
Qed.

Lemma sqpos_rprodl Ys : forall pre axes r,
  sqpos (length pre) Ys axes r
  = rprodl (fun i => me (nth i (pre ++ Ys) (Model.mkmat R 0 0 (fun _ _ => 1))) 0%nat r)
           (filter (fun i => memb i axes) (seq (length pre) (length Ys))).
Proof.
  induction Ys as [|Y Ys IH]; intros pre axes r; simpl; [reflexivity|].
  assert (E : nth (length pre) (pre ++ Y :: Ys) (Model.mkmat R 0 0 (fun _ _ => 1)) = Y).
  { rewrite app_nth2, Nat.sub_diag by lia. reflexivity. }
  specialize (IH (pre ++ [Y]) axes r). rewrite app_length in IH. simpl in IH.
  replace (length pre + 1)%nat with (S (length pre)) in IH by lia.
  rewrite <- app_assoc in IH. simpl in IH.
  destruct (memb (length pre) axes); simpl.
  - rewrite E, IH. reflexivity.
  - exact IH.
Qed.

Lemma sq_factor_sqpos Xs axes r :
  NoDup axes -> (forall a, In a axes -> a < length Xs) ->
  Model.sq_factor R rI rmul Xs axes r = sqpos 0 Xs axes r.
Proof.
  intros ND HB. pose proof (sqpos_rprodl Xs [] axes r) as P. cbn [length app] in P. rewrite P.
  change (Model.sq_factor R rI rmul Xs axes r)
    with (rprodl (fun i => me (nth i Xs (Model.mkmat R 0 0 (fun _ _ => 1))) 0%nat r) axes).
  apply rprodl_perm. apply NoDup_Permutation.
  - exact ND.
  - apply NoDup_filter. apply seq_NoDup.
  - intros a. rewrite filter_In, in_seq, memb_In. split.
    + intros Ha. split; [|exact Ha]. specialize (HB a Ha). lia.
    + intros [_ Ha]. exact Ha.
Qed.

Definition uniform := (Proofs.uniform R).

Lemma keep_uniform (Xs : list mat) rk : forall k axes, uniform Xs rk -> uniform (keep k Xs axes) rk.
Proof.
  induction Xs as [|X Xs IH]; intros k axes H; simpl; [constructor|].
  inversion H; subst. destruct (memb k axes); [apply IH; assumption|constructor; [reflexivity|apply IH; assumption]].
Qed.

(* squeeze(axis=axes): entry idx of the squeezed tensor is the entry of the original with 0 at the
   squeezed axes, for any duplicate-free set of axes that leaves at least one axis *)
Lemma canon_squeeze_spec Xs axes idx :
  uniform Xs (crank Xs) -> NoDup axes -> (forall a, In a axes -> a < length Xs) ->
  keep 0 Xs axes <> [] -> length idx = length (keep 0 Xs axes) ->
  centry (Model.canon_squeeze_some R rO rI rmul Xs axes) idx = centry Xs (unsqueeze (length Xs) axes idx).
Proof.
  intros HU ND HB Hne HL. unfold Model.canon_squeeze_some.
  rewrite <- (keep_is_pick (Model.mkmat R 0 0 (fun _ _ => 0)) Xs axes).
  pose proof (keep_uniform Xs (crank Xs) 0 axes HU) as HK.
  destruct (keep 0 Xs axes) as [|X rest] eqn:EK; [congruence|].
  unfold Model.centry at 1 2. simpl Model.crank at 1.
  inversion HK as [|? ? H1 H2]; subst. simpl Model.mc. rewrite H1. apply sumn_ext. intros r _.
  unfold unsqueeze. rewrite cterm_unsqueeze by (rewrite EK; exact HL).
  rewrite EK. destruct idx as [|i idx]; [discriminate|]. simpl.
  rewrite sq_factor_sqpos by assumption. ring.
Qed.

(* --- the axes dropped by __getitem__, by flags ----------------------- *)
Fixpoint unsqb (flags : list bool) (idx : list nat) : list nat :=
  match flags with
  | [] => []
  | true :: fl => 0%nat :: unsqb fl idx
  | false :: fl => match idx with [] => 0%nat :: unsqb fl [] | i :: idx' => i :: unsqb fl idx' end
  end.
Fixpoint keepb {A} (Ys : list A) (flags : list bool) : list A :=
  match Ys, flags with
  | Y :: Ys', true :: fl => keepb Ys' fl
  | Y :: Ys', false :: fl => Y :: keepb Ys' fl
  | _, _ => []
  end.

Lemma sel_ge ax : forall k x, In x (sel_singletons k ax) -> k <= x < k + length ax.
Proof.
  induction ax as [|a ax IH]; intros k x H; simpl in *; [destruct H|].
  destruct (snd a).
  - destruct H as [<-|H]; [lia|]. apply IH in H. lia.
  - apply IH in H. lia.
Qed.

Lemma memb_sel_head a ax k : memb k (sel_singletons k (a :: ax)) = snd a.
Proof.
  simpl. destruct (snd a); simpl.
  - unfold memb; simpl. rewrite Nat.eqb_refl. reflexivity.
  - destruct (memb k (sel_singletons (S k) ax)) eqn:E; [|reflexivity].
    apply memb_In, sel_ge in E. lia.
Qed.

Lemma memb_sel_tail a ax k j : k < j -> memb j (sel_singletons k (a :: ax)) = memb j (sel_singletons (S k) ax).
Proof.
  intros H. simpl. destruct (snd a); [|reflexivity].
  unfold memb; simpl. destruct (Nat.eqb_spec j k); [lia|reflexivity].
Qed.

Lemma unsq_flags ax : forall k axes idx,
  (forall j, k <= j -> memb j axes = memb j (sel_singletons k ax)) ->
  unsqueeze_aux k (length ax) axes idx = unsqb (map snd ax) idx.
Proof.
  induction ax as [|a ax IH]; intros k axes idx H; [reflexivity|].
  cbn [length unsqueeze_aux map unsqb].
  rewrite (H k (le_n k)), memb_sel_head.
  assert (H' : forall j, S k <= j -> memb j axes = memb j (sel_singletons (S k) ax)).
  { intros j Hj. rewrite H by lia. apply memb_sel_tail. lia. }
  destruct (snd a).
  - f_equal. apply IH, H'.
  - destruct idx; f_equal; apply IH, H'.
Qed.

Lemma keep_flags {A} ax : forall (Ys : list A) k axes,
  length Ys = length ax ->
  (forall j, k <= j -> memb j axes = memb j (sel_singletons k ax)) ->
  keep k Ys axes = keepb Ys (map snd ax).
Proof.
  induction ax as [|a ax IH]; intros [|Y Ys] k axes HL H; simpl in HL; try discriminate; [reflexivity|].
  cbn [keep map keepb].
  rewrite (H k (le_n k)), memb_sel_head.
  assert (H' : forall j, S k <= j -> memb j axes = memb j (sel_singletons (S k) ax)).
  { intros j Hj. rewrite H by lia. apply memb_sel_tail. lia. }
  destruct (snd a); [|f_equal]; apply IH; auto.
Qed.

Lemma sel_NoDup ax : forall k, NoDup (sel_singletons k ax).
Proof.
  induction ax as [|a ax IH]; intros k; simpl; [constructor|].
  destruct (snd a); [|apply IH]. constructor; [|apply IH].
  intros H. apply sel_ge in H. lia.
Qed.

Lemma sel_length ax : forall k, length (sel_singletons k ax) = length (filter (fun b => b) (map snd ax)).
Proof.
  induction ax as [|a ax IH]; intros k; simpl; [reflexivity|].
  destruct (snd a); simpl; rewrite IH; reflexivity.
Qed.

Lemma keepb_length {A} : forall (Ys : list A) flags, length Ys = length flags ->
  (length (keepb Ys flags) + length (filter (fun b => b) flags) = length Ys)%nat.
Proof.
  induction Ys as [|Y Ys IH]; intros [|[|] fl] H; simpl in *; try discriminate; try reflexivity;
    specialize (IH fl ltac:(lia)); lia.
Qed.

Lemma filter_len_le {A} (p : A -> bool) l : length (filter p l) <= length l.
Proof. induction l as [|x l IH]; simpl; [lia|]. destruct (p x); simpl; lia. Qed.

Lemma unsqb_all_true flags idx : length (filter (fun b => b) flags) = length flags ->
  unsqb flags idx = repeat 0%nat (length flags).
Proof.
  revert idx. induction flags as [|[|] fl IH]; intros idx H; simpl in *; [reflexivity| |].
  - f_equal. apply IH. lia.
  - pose proof (filter_len_le (fun b => b) fl). lia.
Qed.

Lemma unsqb_all_false flags idx : filter (fun b => b) flags = [] -> length idx = length flags ->
  unsqb flags idx = idx.
Proof.
  revert idx. induction flags as [|[|] fl IH]; intros [|i idx] H HL; simpl in *; try discriminate; try reflexivity.
  f_equal. apply IH; [exact H|lia].
Qed.

Local Notation rows := (fun (Xs : list mat) (rss : list (list nat)) =>
  map (fun p => Model.mat_rows R (fst p) (snd p)) (combine Xs rss)).

Lemma rows_uniform (Xs : list mat) rk : forall rss, uniform Xs rk -> uniform (rows Xs rss) rk.
Proof.
  induction Xs as [|X Xs IH]; intros [|rs rss] H; simpl; try constructor.
  - inversion H; subst. reflexivity.
  - apply IH. inversion H; assumption.
Qed.

Local Notation canon_rows_spec := (Proofs.canon_rows_spec R rO rI radd rmul).
Local Notation getitem := (Model.getitem R rO rI radd rmul).
Local Notation entry := (Model.entry R rO rI radd rmul).

(* CanonicalTensor.__getitem__ in full: for EVERY index expression that is accepted, entry idx' of the
   result (idx' ranging over the axes that are not dropped) is the entry of the original tensor at the
   selected positions, with the (single) selected position at every axis indexed by an int.
   An all-int expression returns the scalar entry. *)
Lemma canon_getitem_spec (Xs : list mat) II ax t' idx' :
  uniform Xs (crank Xs) -> Xs <> [] ->
  normalize_indices II (Model.cshape R Xs) = Ok ax ->
  getitem (Model.TCanon R Xs) II = Ok t' ->
  length idx' = length (filter negb (map snd ax)) ->
  entry t' idx' = centry Xs (sel_idx (sel_ranges ax) (unsqb (map snd ax) idx')).
Proof.
  intros HU Hne HN HG HL.
  destruct (normalize_indices_ok _ _ _ HN) as [_ [Hax _]].
  unfold Model.cshape in Hax. rewrite map_length in Hax.
  unfold Model.getitem in HG. cbn [Model.shape_of] in HG. rewrite HN in HG. cbn [bind] in HG.
  set (RX := rows Xs (sel_ranges ax)) in *.
  assert (HRl : length RX = length ax).
  { unfold RX. rewrite map_length, combine_length. unfold sel_ranges. rewrite map_length. lia. }
  assert (HRr : crank RX = crank Xs).
  { unfold RX. destruct Xs as [|X Xs]; [congruence|]. destruct ax as [|a ax]; [discriminate|]. reflexivity. }
  assert (HRu : uniform RX (crank RX)) by (rewrite HRr; apply rows_uniform; exact HU).
  assert (Hsel : length (sel_ranges ax) = length Xs) by (unfold sel_ranges; rewrite map_length; lia).
  assert (Hfl : forall (A : Type) (Ys : list A), length Ys = length ax ->
                keep 0 Ys (sel_singletons 0 ax) = keepb Ys (map snd ax)).
  { intros A Ys HY. apply keep_flags; auto. }
  assert (Hun : forall idx, unsqueeze (length ax) (sel_singletons 0 ax) idx = unsqb (map snd ax) idx).
  { intros idx. unfold unsqueeze. apply unsq_flags. auto. }
  assert (Hcnt : (length (filter negb (map snd ax)) + length (filter (fun b => b) (map snd ax)) = length ax)%nat).
  { clear. induction ax as [|[r [|]] ax IH]; simpl; lia. }
  unfold Model.squeeze_axes in HG. cbn [Model.shape_of] in HG.
  destruct (negb (forallb _ (sel_singletons 0 ax))); [discriminate|].
  destruct (sel_singletons 0 ax) as [|s0 srest] eqn:ES.
  - (* no int index *)
    inversion HG; subst t'. unfold Model.entry; simpl.
    assert (Z0 : filter (fun b => b) (map snd ax) = []).
    { pose proof (sel_length ax 0) as P. rewrite ES in P. simpl in P.
      destruct (filter (fun b => b) (map snd ax)); [reflexivity|discriminate]. }
    rewrite unsqb_all_false by (rewrite ?map_length; try exact Z0; rewrite Z0 in Hcnt; simpl in Hcnt; lia).
    apply canon_rows_spec. exact Hsel.
  - rewrite <- ES in *. clear s0 srest ES.
    assert (Hd : length (Model.cshape R RX) = length ax) by (unfold Model.cshape; rewrite map_length; exact HRl).
    rewrite Hd in HG.
    destruct (Nat.eqb_spec (length (sel_singletons 0 ax)) (length ax)) as [Eall|Enot].
    + (* every index is an int: the scalar entry *)
      inversion HG; subst t'. unfold Model.entry; simpl. unfold Model.zeros_idx.
      rewrite sel_length in Eall.
      rewrite unsqb_all_true by (rewrite map_length; exact Eall). rewrite map_length.
      apply canon_rows_spec. exact Hsel.
    + inversion HG; subst t'. unfold Model.entry; simpl.
      rewrite canon_squeeze_spec.
      * rewrite HRl, Hun. apply canon_rows_spec. exact Hsel.
      * exact HRu.
      * apply sel_NoDup.
      * intros a Ha. apply sel_ge in Ha. lia.
      * rewrite (Hfl _ RX HRl). intros E.
        pose proof (keepb_length RX (map snd ax)) as P. rewrite map_length in P. specialize (P HRl).
        rewrite E in P. simpl in P. rewrite sel_length in Enot. lia.
      * rewrite (Hfl _ RX HRl).
        pose proof (keepb_length RX (map snd ax)) as P. rewrite map_length in P. specialize (P HRl). lia.
Qed.

(* ------------------------------------------------------------------ *)
(* squeeze of a Tucker tensor (tensor.py:1002-1021)                    *)
(* ------------------------------------------------------------------ *)
Fixpoint sqopsp (k : nat) (Ys : list mat) (axes : list nat) : list (option mat) :=
  match Ys with
  | [] => []
  | Y :: Ys' => (if memb k axes then Some Y else None) :: sqopsp (S k) Ys' axes
  end.

Lemma sqopsp_is (Ys : list mat) : forall pre axes,
  sqopsp (length pre) Ys axes
  = map (fun k => if memb k axes then Some (nth k (pre ++ Ys) (Model.mkmat R 0 0 (fun _ _ => 0))) else None)
        (seq (length pre) (length Ys)).
Proof.
  induction Ys as [|Y Ys IH]; intros pre axes; simpl; [reflexivity|].
  assert (E : nth (length pre) (pre ++ Y :: Ys) (Model.mkmat R 0 0 (fun _ _ => 0)) = Y).
  { rewrite app_nth2, Nat.sub_diag by lia. reflexivity. }
  specialize (IH (pre ++ [Y]) axes). rewrite app_length in IH. simpl in IH.
  replace (length pre + 1)%nat with (S (length pre)) in IH by lia.
  rewrite <- app_assoc in IH. simpl in IH. rewrite E, IH. reflexivity.
Qed.

Lemma tprod_unsqueeze Ys : forall k axes (f : list nat -> R) idx,
  length idx = length (keep k Ys axes) ->
  tprod (map Some Ys) f (unsqueeze_aux k (length Ys) axes idx)
  = tprod (map Some (keep k Ys axes))
          (fun J' => tprod (sqopsp k Ys axes) f (unsqueeze_aux k (length Ys) axes J')) idx.
Proof.
  induction Ys as [|Y Ys IH]; intros k axes f idx HL.
  - reflexivity.
  - cbn [length unsqueeze_aux keep sqopsp map] in *. destruct (memb k axes) eqn:Em.
    + cbn [Model.tprod].
      rewrite (sumn_ext _ _ (fun j => tprod (map Some (keep (S k) Ys axes))
                 (fun J' => me Y 0%nat j * tprod (sqopsp (S k) Ys axes) (fun rest => f (j :: rest))
                                                 (unsqueeze_aux (S k) (length Ys) axes J')) idx)).
      2:{ intros j _. rewrite IH by exact HL. rewrite tprod_scale. reflexivity. }
      rewrite <- (tprod_sumn (map Some (keep (S k) Ys axes)) (mc Y)
                   (fun j J' => me Y 0%nat j * tprod (sqopsp (S k) Ys axes) (fun rest => f (j :: rest))
                                                    (unsqueeze_aux (S k) (length Ys) axes J'))).
      apply tprod_ext. intros J. reflexivity.
    + destruct idx as [|i idx]; [discriminate|]. cbn [map Model.tprod].
      apply sumn_ext. intros j _. f_equal. simpl in HL.
      rewrite IH by lia. apply tprod_ext. intros J. reflexivity.
Qed.

Lemma tprod_shape_length (Bs : list (option mat)) : forall shape, length (tprod_shape R Bs shape) = length shape.
Proof.
  induction Bs as [|ob Bs IH]; intros [|n shape]; simpl; try reflexivity. rewrite IH. reflexivity.
Qed.

(* squeeze(axis=axes) of a Tucker tensor: entry idx of the result is the entry of the original with 0
   at the squeezed axes *)
Lemma tucker_squeeze_spec (Us : list mat) X axes idx :
  Proofs.core_ok R Us X -> length idx = length (keep 0 Us axes) ->
  let '(Us', X') := Model.tucker_squeeze_some R rO radd rmul Us X axes in
  tentry Us' X' idx = tentry Us X (unsqueeze (length Us) axes idx).
Proof.
  intros HC HL. unfold Model.tucker_squeeze_some, Model.tentry, Model.full_squeeze, Model.full_tprod.
  cbn [Model.fsh Model.fe].
  rewrite tprod_shape_length. unfold Proofs.core_ok in HC. rewrite HC, map_length.
  rewrite <- (keep_is_pick (Model.mkmat R 0 0 (fun _ _ => 0)) Us axes).
  unfold unsqueeze. rewrite tprod_unsqueeze by exact HL.
  apply tprod_ext. intros J. unfold Model.tucker_sq_ops.
  pose proof (sqopsp_is Us [] axes) as P. cbn [length app] in P. rewrite P. reflexivity.
Qed.

(* ------------------------------------------------------------------ *)
(* CanonicalTensor.from_tensor(TuckerTensor) (tensor.py:735-745)       *)
(* ------------------------------------------------------------------ *)
Variable nonzero : R -> bool.
Local Notation tprod_kterm := (Proofs.tprod_kterm R rO rI radd rmul rsub ropp Rth).

Lemma ksum_ndindex dims : forall g : list nat -> R, ksum dims g = rsum (map g (ndindex dims)).
Proof.
  unfold ndindex. induction dims as [|n dims IH]; intros g; simpl.
  - ring.
  - rewrite rsum_flat_map. unfold Model.sumn. apply rsum_map_ext. intros k _.
    rewrite map_map. apply IH.
Qed.

Lemma rsum_filter_zero {A} (p : A -> bool) (h : A -> R) l :
  (forall x, p x = false -> h x = 0) -> rsum (map h (filter p l)) = rsum (map h l).
Proof.
  intros H. induction l as [|x l IH]; simpl; [reflexivity|].
  destruct (p x) eqn:E; simpl; rewrite IH; [reflexivity|]. rewrite (H x E). ring.
Qed.

Lemma sumn_S n (f : nat -> R) : sumn (S n) f = f 0%nat + sumn n (fun t => f (S t)).
Proof.
  change (S n) with (1 + n)%nat. rewrite sumn_split. unfold Model.sumn at 1. simpl. ring.
Qed.

Lemma sumn_nth {A} (d0 : A) (h : A -> R) l : sumn (length l) (fun t => h (nth t l d0)) = rsum (map h l).
Proof.
  induction l as [|x l IH]; simpl length; [reflexivity|].
  rewrite sumn_S. simpl. rewrite IH. reflexivity.
Qed.

Lemma product_length_elt : forall (ls : list (list nat)) J, In J (product ls) -> length J = length ls.
Proof.
  induction ls as [|l ls IH]; intros J H; simpl in H.
  - destruct H as [<-|[]]. reflexivity.
  - apply in_flat_map in H. destruct H as [x [_ H]]. apply in_map_iff in H. destruct H as [J' [<- H]].
    simpl. f_equal. apply IH. exact H.
Qed.

Lemma skipn_cons_nth {A} (d0 : A) : forall (l : list A) k, k < length l -> skipn k l = nth k l d0 :: skipn (S k) l.
Proof.
  induction l as [|x l IH]; intros [|k] H; simpl in *; try lia; [reflexivity|]. apply IH. lia.
Qed.

Lemma t2c_tail X inds t (Ys : list mat) : forall k idx,
  1 <= k -> k + length Ys <= length (nth t inds []) ->
  cterm (map (fun p => Model.t2c_factor R rmul (fst p) (snd p) X inds) (combine (seq k (length Ys)) Ys)) idx t
  = kterm Ys idx (skipn k (nth t inds [])).
Proof.
  induction Ys as [|Y Ys IH]; intros k idx Hk HL; simpl in *.
  - reflexivity.
  - destruct idx as [|i idx]; [reflexivity|].
    rewrite (skipn_cons_nth 0%nat) by lia. simpl.
    destruct (Nat.eqb_spec k 0); [lia|]. rewrite IH by lia. reflexivity.
Qed.

(* exact whenever the dropped core entries (abs(a) <= 1e-15 in the code) are exactly zero *)
Lemma tucker_to_canon_spec (Us : list mat) X idx :
  (forall a, nonzero a = false -> a = 0) ->
  Proofs.core_ok R Us X -> Us <> [] -> length idx = length Us ->
  centry (Model.tucker_to_canon R rO rmul nonzero Us X) idx = tentry Us X idx.
Proof.
  intros Hnz HC Hne HI. unfold Proofs.core_ok in HC.
  unfold Model.tentry. rewrite tprod_kterm by exact HI. rewrite ksum_ndindex, <- HC.
  rewrite <- (rsum_filter_zero (fun index => nonzero (fe X index))).
  2:{ intros J HJ. rewrite (Hnz _ HJ). ring. }
  unfold Model.tucker_to_canon. fold (Model.t2c_indices R nonzero X).
  set (inds := Model.t2c_indices R nonzero X).
  assert (Hin : forall J, In J inds -> length J = length Us).
  { intros J HJ. unfold inds, Model.t2c_indices in HJ. apply filter_In in HJ. destruct HJ as [HJ _].
    unfold ndindex in HJ. apply product_length_elt in HJ. rewrite map_length, HC, map_length in HJ. exact HJ. }
  unfold Model.t2c_indices in inds. fold inds.
  destruct Us as [|U Us]; [congruence|]. destruct idx as [|i idx]; [discriminate|].
  destruct inds as [|J0 inds'] eqn:EI.
  - unfold Model.centry. simpl. reflexivity.
  - rewrite <- EI in *. clear J0 inds' EI.
    rewrite <- (sumn_nth (@nil nat)).
    unfold Model.centry. cbn [length seq combine map Model.crank Model.t2c_factor Model.mc].
    apply sumn_ext. intros t Ht.
    assert (HJ : length (nth t inds []) = S (length Us)) by (apply Hin, nth_In; exact Ht).
    cbn [Model.cterm Model.me]. simpl Nat.eqb. cbv iota.
    rewrite (t2c_tail X inds t Us 1 idx) by lia.
    destruct (nth t inds []) as [|j J] eqn:EJ; [discriminate|]. simpl. rewrite ?EJ. simpl. ring.
Qed.

(* ------------------------------------------------------------------ *)
(* TensorGenerator.__getitem__ (lowrank.py:38-45), sub-case without int indices *)
(* ------------------------------------------------------------------ *)
Definition prodl (l : list nat) : nat := fold_right Nat.mul 1%nat l.

Lemma product_length : forall ls : list (list nat), length (product ls) = prodl (map (@length nat) ls).
Proof.
  induction ls as [|l ls IH]; simpl; [reflexivity|].
  rewrite <- IH. generalize (product ls) as P. intros P.
  induction l as [|x l IHl]; simpl; [reflexivity|]. rewrite app_length, map_length, IHl. reflexivity.
Qed.

Lemma ravel_aux_lin : forall shape idx acc, length idx = length shape ->
  ravel_aux acc shape idx = (acc * prodl shape + ravel_aux 0 shape idx)%nat.
Proof.
  induction shape as [|n shape IH]; intros [|i idx] acc H; simpl in *; try discriminate; [lia|].
  rewrite (IH idx (acc * n + i)%nat) by lia. rewrite (IH idx i) by lia. nia.
Qed.

Lemma ravel_aux_bound : forall shape idx, length idx = length shape -> all_lt idx shape = true ->
  ravel_aux 0 shape idx < prodl shape.
Proof.
  induction shape as [|n shape IH]; intros [|i idx] H Hlt; simpl in *; try discriminate; [lia|].
  apply andb_true_iff in Hlt. destruct Hlt as [Hi Hlt]. apply Nat.ltb_lt in Hi.
  rewrite (ravel_aux_lin shape idx i) by lia. specialize (IH idx ltac:(lia) Hlt). nia.
Qed.

Lemma nth_flat_map_const {A B} (F : A -> list B) (d0 : A) (d : B) m : forall l i r,
  (forall x, length (F x) = m) -> i < length l -> r < m ->
  nth (i * m + r) (flat_map F l) d = nth r (F (nth i l d0)) d.
Proof.
  induction l as [|x l IH]; intros i r HF Hi Hr; simpl in Hi; [lia|].
  simpl flat_map. destruct i as [|i].
  - simpl. rewrite app_nth1 by (rewrite HF; exact Hr). reflexivity.
  - rewrite app_nth2 by (rewrite HF; simpl; lia). rewrite HF.
    replace (S i * m + r - m)%nat with (i * m + r)%nat by (simpl; lia).
    simpl nth. apply IH; [exact HF|lia|exact Hr].
Qed.

(* entry number ravel(shape, idx) of the cartesian product is the idx-th combination *)
Lemma nth_product : forall (ls : list (list nat)) idx,
  length idx = length ls -> all_lt idx (map (@length nat) ls) = true ->
  nth (ravel (map (@length nat) ls) idx) (product ls) [] = sel_idx ls idx.
Proof.
  unfold ravel, sel_idx.
  induction ls as [|l ls IH]; intros [|i idx] H Hlt; simpl in *; try discriminate; [reflexivity|].
  apply andb_true_iff in Hlt. destruct Hlt as [Hi Hlt]. apply Nat.ltb_lt in Hi.
  rewrite (ravel_aux_lin (map (@length nat) ls) idx i) by (rewrite map_length; lia).
  pose proof (ravel_aux_bound (map (@length nat) ls) idx ltac:(rewrite map_length; lia) Hlt) as Hb.
  rewrite (nth_flat_map_const (fun x => map (cons x) (product ls)) 0%nat [] (prodl (map (@length nat) ls)))
    by (try (intros x; rewrite map_length; apply product_length); assumption).
  rewrite (nth_indep _ [] (nth i l 0%nat :: [])) by (rewrite map_length, product_length; exact Hb).
  rewrite (map_nth (cons (nth i l 0%nat))). f_equal. apply IH; [lia|exact Hlt].
Qed.

Lemma filter_all_true {A} (p : A -> bool) l : (forall x, p x = true) -> filter p l = l.
Proof. intros H. induction l as [|x l IH]; simpl; [reflexivity|]. rewrite H, IH. reflexivity. Qed.

(* PARTIAL (index expressions without int indices, i.e. no axis is dropped): the generator returns,
   at C-order position ravel(shape_new, idx), exactly the wrapped entry at the selected positions *)
Lemma generator_getitem_noint (shape : list nat) (f : list nat -> R) II ax sh data idx d :
  normalize_indices II shape = Ok ax -> sel_singletons 0 ax = [] ->
  Model.gen_getitem R shape f II = Ok (sh, data) ->
  length idx = length ax -> all_lt idx (sel_shape ax) = true ->
  sh = sel_shape ax /\ nth (ravel sh idx) data d = f (sel_idx (sel_ranges ax) idx).
Proof.
  intros HN HS HG HL Hlt. unfold Model.gen_getitem in HG. rewrite HN in HG. cbn [bind] in HG.
  rewrite HS in HG. inversion HG; subst sh data; clear HG.
  assert (E : pick (sel_shape ax) (remaining (length ax) []) 0%nat = sel_shape ax).
  { unfold pick, remaining. rewrite filter_all_true by (intros; reflexivity).
    replace (length ax) with (length (sel_shape ax)) by (unfold sel_shape; apply map_length).
    clear. generalize (sel_shape ax) as l. intros l. apply nth_ext with (d := 0%nat) (d' := 0%nat).
    - rewrite map_length, seq_length. reflexivity.
    - intros n Hn. rewrite map_length, seq_length in Hn.
      rewrite (nth_indep _ 0%nat (nth 0 l 0%nat)) by (rewrite map_length, seq_length; exact Hn).
      rewrite (map_nth (fun k => nth k l 0%nat)), seq_nth by exact Hn. reflexivity. }
  rewrite E. split; [reflexivity|].
  assert (Esh : sel_shape ax = map (@length nat) (sel_ranges ax)).
  { unfold sel_shape, sel_ranges. rewrite map_map. reflexivity. }
  rewrite Esh in *.
  assert (Hr : ravel (map (@length nat) (sel_ranges ax)) idx < length (product (sel_ranges ax))).
  { rewrite product_length. apply ravel_aux_bound; [rewrite map_length; unfold sel_ranges; rewrite map_length; exact HL|exact Hlt]. }
  rewrite (nth_indep _ d (f [])) by (rewrite map_length; exact Hr).
  rewrite (map_nth f). f_equal. apply nth_product; [unfold sel_ranges; rewrite map_length; exact HL|exact Hlt].
Qed.

End RingProofs2.
