(* C03 -- lemmas, part 4: the hypotheses of hassemble_entry_partial that are invariants of reachable spaces
   (C04: tables_consistent, activity_characterisation) are discharged for st = run (hs_init axes disp) ops. *)
From Coq Require Import List Arith Bool Lia NArith Ring.
From Verif.lib Require Import FinSet.
From Verif.C04 Require Import Model Proofs ProofsFun ProofsMesh.
From Verif.C03 Require Import Model Proofs Proofs2.
Import ListNotations.

Lemma reachable_good2 : forall axes disp ops,
  Forall axis_ok axes -> (forall d, disp = Some d -> 1 <= d) -> ops_valid (hs_init axes disp) ops ->
  good2 (tpmesh_of axes) (run (hs_init axes disp) ops).
Proof.
  intros axes disp ops Ha Hd Hv. apply good2_run; auto.
  - apply hier_ok_valid; auto.
  - apply good2_init; auto. apply hier_ok_valid; auto.
Qed.

Lemma reachable_meshes : forall axes disp ops,
  Forall axis_ok axes -> (forall d, disp = Some d -> 1 <= d) -> ops_valid (hs_init axes disp) ops ->
  let st := run (hs_init axes disp) ops in
  (forall k, k < numlevels st -> mesh_ok (msh st k)) /\
  (forall k k', k < numlevels st -> k' < numlevels st -> dim (msh st k) = dim (msh st k')) /\
  (forall k f, In f (AFm st k) -> In f (tp_functions (msh st k))).
Proof.
  intros axes disp ops Ha Hd Hv st.
  pose proof (reachable_good2 axes disp ops Ha Hd Hv) as G. fold st in G.
  split; [|split].
  - apply (good2_meshes_fine (tpmesh_of axes)); auto. apply hier_ok_valid; auto.
  - intros k k' Hk Hk'. rewrite (g2_msh _ _ G k Hk), (g2_msh _ _ G k' Hk'). rewrite !dim_iter. reflexivity.
  - intros k f Hf. destruct (Nat.lt_ge_cases k (numlevels st)) as [Hk|Hk].
    + apply (fi_act _ (g2_funcs _ _ G) k f Hk). exact Hf.
    + unfold AFm in Hf. rewrite lvl_overflow in Hf by auto. destruct Hf.
Qed.

Section Reach.
Variable R : Type.
Variables (r0 r1 : R) (radd rmul rsub : R -> R -> R) (ropp : R -> R).
Hypothesis Rth : ring_theory r0 r1 radd rmul rsub ropp eq.

Lemma hassemble_entry_reachable_l : forall axes disp ops,
  Forall axis_ok axes -> (forall d, disp = Some d -> 1 <= d) -> ops_valid (hs_init axes disp) ops ->
  let st := run (hs_init axes disp) ops in
  forall (pmat : nat -> nat -> smat R) (a : nat -> mi -> mi -> R),
  local R r0 st a ->
  P_local R st pmat ->
  (forall k r, In r (interlevel R st pmat k) -> In r (tp_functions (msh st k))) ->
  forall li fi lj fj,
  li < numlevels st -> lj < numlevels st -> In fi (AFm st li) -> In fj (AFm st lj) ->
  blk_entry R r0 radd rmul a (repc R r0 r1 radd rmul st pmat) (nbr st) (interlevel R st pmat) (to_assemble R st pmat)
            false li fi lj fj
  = spec_entry R r0 radd rmul a (repc R r0 r1 radd rmul st pmat) (fun k => tp_functions (msh st k)) li fi lj fj.
Proof.
  intros axes disp ops Ha Hd Hv st pmat a Hloc HP Hil.
  destruct (reachable_meshes axes disp ops Ha Hd Hv) as [Hm [Hdim HF]].
  apply (hassemble_entry_concrete R r0 r1 radd rmul rsub ropp Rth st pmat a); auto.
Qed.
End Reach.
