(* C05 -- property theorems, third file: (a) boundary_restriction, (b) the bridge between the Qc knot vectors
   of C05 and the integer child pattern of C04 (coq/C04/Children.v).  Statements only; proofs in
   coq/C05/BoundaryTrace.v and coq/C05/Bridge.v. *)
From Coq Require Import QArith Qcanon List Arith.
From Verif.lib Require Import Bsp.
From Verif.C02 Require Import Proofs.
From Verif.C05 Require Import Model Proofs Hier Bridge BoundaryTrace.
Import ListNotations.
Open Scope Qc_scope.

(* ---- (a) HSpace.boundary, hierarchical.py:540-580 ------------------------------------------------------
   axes of a level = k1 ++ (kv,p) :: k2 (any number of axes before and behind the boundary axis), raveled
   C-order indices; end_idx = 0 / numdofs-1 (assemble.boundary_dofs), end_pt = first / last knot;
   open_ends kv p = well-formed open knot vector with a non-empty first span.
   Function k = (i1, i2) of the boundary space (multi-index with the boundary axis dropped) is, at every point
   of the face, the function map[k] = (i1, end_idx, i2) of the space it was taken from -- on every level, so
   for every HB basis function of the boundary space. *)
Theorem boundary_restriction : forall k1 kv p k2 u1 u2 side i1 i2,
  length u1 = length k1 -> open_ends kv p -> (i1 < tp_dofs k1)%nat -> (i2 < tp_dofs k2)%nat ->
  TPN (k1 ++ k2) (i1 * tp_dofs k2 + i2) (u1 ++ u2)
  = TPN (k1 ++ (kv, p) :: k2) ((i1 * numdofs kv p + end_idx kv p side) * tp_dofs k2 + i2)
        (u1 ++ end_pt kv side :: u2).
Proof. exact boundary_restriction_l. Qed.
Print Assumptions boundary_restriction.

(* every function that boundary() does not keep vanishes on the face: the trace of the space is spanned by
   the kept functions *)
Theorem boundary_restriction_others_vanish : forall k1 kv p k2 u1 u2 side i1 j i2,
  length u1 = length k1 -> open_ends kv p ->
  (i1 < tp_dofs k1)%nat -> (j < numdofs kv p)%nat -> (i2 < tp_dofs k2)%nat -> j <> end_idx kv p side ->
  TPN (k1 ++ (kv, p) :: k2) ((i1 * numdofs kv p + j) * tp_dofs k2 + i2) (u1 ++ end_pt kv side :: u2) = 0.
Proof. exact boundary_others_vanish_l. Qed.
Print Assumptions boundary_restriction_others_vanish.

(* both in one: the trace of any tensor-product function *)
Theorem tp_trace : forall k1 kv p k2 u1 u2 side i1 j i2,
  length u1 = length k1 -> open_ends kv p ->
  (i1 < tp_dofs k1)%nat -> (j < numdofs kv p)%nat -> (i2 < tp_dofs k2)%nat ->
  TPN (k1 ++ (kv, p) :: k2) ((i1 * numdofs kv p + j) * tp_dofs k2 + i2) (u1 ++ end_pt kv side :: u2)
  = (if Nat.eqb j (end_idx kv p side) then 1 else 0) * TPN (k1 ++ k2) (i1 * tp_dofs k2 + i2) (u1 ++ u2).
Proof. exact tp_trace_l. Qed.
Print Assumptions tp_trace.

(* the end-point values used (from coq/C07/Ends.v), in C05's vocabulary *)
Theorem basis_at_ends : forall kv p side j, open_ends kv p -> (j < numdofs kv p)%nat ->
  Nref kv p j (end_pt kv side) = if Nat.eqb j (end_idx kv p side) then 1 else 0.
Proof. exact N_at_end. Qed.
Print Assumptions basis_at_ends.
(* NOT PROVED: boundary_restriction for the TRUNCATED (THB) functions of the boundary space (that truncation
   on the face commutes with taking the trace: needs P_axis[end_idx, end_idx] = 1 and P_axis[end_idx, i] = 0
   for the open knot vectors of the boundary axis, i.e. the boundary block of the Kronecker prolongator is the
   prolongator of the boundary space); the set bookkeeping of boundary() (intersection of actfun/deactfun/cells
   with the boundary index sets, cropping of empty levels) stays with C04 (coq/C04/Boundary.v) and the oracle. *)

(* ---- (b) bridge to C04's child pattern ------------------------------------------------------------------
   ANY refinement: the non-zero entries of column i of the exact Boehm product lie between the new positions
   of the first and the last knot of coarse function i: posmap i <= j <= posmap (i+p+1) - (p+1), where
   posmap composes the shifts of the single insertions ... *)
Theorem prolongation_support : forall us kv p j i,
  kv_ok kv p -> Forall (in_dom kv) us ->
  (j < numdofs (refine_kv kv p us) p)%nat -> (i < numdofs kv p)%nat ->
  get2 (prolongation_spec kv p us) j i <> 0 ->
  (posmap kv p us i <= j)%nat /\ (j + p + 1 <= posmap kv p us (i + p + 1))%nat.
Proof. exact prolongation_support_l. Qed.
Print Assumptions prolongation_support.

(* ... and posmap x = x + the number of inserted knots that lie before knot x (any list us, any order) *)
Theorem posmap_counts : forall us kv p x,
  kv_ok kv p -> Forall (in_dom kv) us -> (x < length kv)%nat ->
  posmap kv p us x = (x + cnt_lt us (kn kv x))%nat.
Proof. exact posmap_count_l. Qed.
Print Assumptions posmap_counts.

(* dyadic refinement (KnotVector.refine(): one new knot strictly inside every mesh span; `spans bs us`), any
   degree, ANY interior multiplicities kv_ok allows: for the integer axis a of C04 whose knot vector is kv
   (axis_of: knot x has the value bs[k2m a [x]]), posmap is C04's phi ... *)
Theorem posmap_is_phi : forall a bs kv us x,
  kv_ok kv (M4.ax_p a) -> axis_of a bs kv -> spans bs us -> (x < length kv)%nat ->
  posmap kv (M4.ax_p a) us x = C4.phi a x.
Proof. exact posmap_phi_l. Qed.
Print Assumptions posmap_is_phi.

(* ... hence the non-zero entries of the exact knot-insertion product lie inside C04's child pattern
   (the 1-D content of the hypothesis `pattern` of the *_reachable theorems of coq/C05/Props.v and of
   coq/C03 hassemble_entry_pattern_partial) *)
Theorem dyadic_child_pattern : forall a bs kv us j i,
  kv_ok kv (M4.ax_p a) -> axis_of a bs kv -> spans bs us ->
  (j < numdofs (refine_kv kv (M4.ax_p a) us) (M4.ax_p a))%nat -> (i < numdofs kv (M4.ax_p a))%nat ->
  get2 (prolongation_spec kv (M4.ax_p a) us) j i <> 0 ->
  C4.is_child_1d a i j = true.
Proof. exact dyadic_pattern_l. Qed.
Print Assumptions dyadic_child_pattern.

(* the same with the hypotheses axis_of / spans discharged for the concrete construction: kv = the break
   points bs repeated mults times, new knots = the mid points *)
Theorem dyadic_child_pattern_midpoints : forall p bs mults j i,
  bs <> [] -> increasing bs -> length bs = length mults -> Forall (fun m => 0 < m)%nat mults ->
  kv_ok (expand bs mults) p ->
  (j < numdofs (refine_kv (expand bs mults) p (mids bs)) p)%nat -> (i < numdofs (expand bs mults) p)%nat ->
  get2 (prolongation_spec (expand bs mults) p (mids bs)) j i <> 0 ->
  C4.is_child_1d (M4.mk_axis p mults) i j = true.
Proof. exact dyadic_pattern_expand_l. Qed.
Print Assumptions dyadic_child_pattern_midpoints.

Theorem knot_vector_of_axis : forall p bs mults,
  length bs = length mults -> Forall (fun m => 0 < m)%nat mults ->
  axis_of (M4.mk_axis p mults) bs (expand bs mults).
Proof. exact expand_axis_of. Qed.
Print Assumptions knot_vector_of_axis.
(* NOT PROVED: `pattern` itself, i.e. the lifting of dyadic_child_pattern through the Kronecker product and the
   raveling (kron Ms nonzero => every factor nonzero => the multi-index lies in prod_ranges (lookup_children ..)
   = C4.function_children) together with the statement that the axes of level k of a C04 state are the k-fold
   ax_refine of the initial axes and match the k-fold refine_kv .. (mids ..) of the initial knot vectors;
   that the child pattern is attained exactly (every entry inside it is non-zero: the tie of C04 observes this
   on the implementation); prolongate_to's canonical-index bookkeeping (np.ix_, identity block). *)
