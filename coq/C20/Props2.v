(* C20 -- property theorems for the protocol "Ver" of fixes/C20-verify-so-before-import.patch (Verify.v):
   New + a stamp file mod<digest>.ok (name, size, SHA-256 of the .so) published atomically AFTER the .so;
   a cached .so is handed to dlopen only if the stamp is all there and describes exactly the bytes on disk,
   otherwise the entry counts as absent and is rebuilt.  Each theorem is closed by [exact] of a lemma of
   VProofs.v.  All of them hold for EVERY dlopen oracle [orc] and -- unlike Props.v: fault_preserves_invariant
   / recovery_after_faults, which had to exclude [safe_fault] -- for EVERY external fault: any file (.so, stamp,
   private left-overs, ...) x any size class / garbage / deletion, uniformly or one file at a time, and
   clear-cache.py.  The open-finding theorem Props.crash_class_kills (protocol New) stays as it is. *)
From Coq Require Import List Arith.
From Verif.C20 Require Import Model Proofs Verify VProofs.
Import ListNotations.

Theorem ver_invariant_initially : VInv vinit.
Proof. exact vinv_init. Qed.
Print Assumptions ver_invariant_initially.

Theorem ver_invariant_inductive : forall orc st l, VInv st -> VInv (vstep orc st l).
Proof. exact vinv_step. Qed.
Print Assumptions ver_invariant_inductive.

(* no external damage of any cache file, in any class, breaks the invariant: nothing is excluded *)
Theorem ver_fault_preserves_invariant : forall st f, VInv st -> vquiescent st -> VInv (vapply_fault st f).
Proof. exact vfault_preserves_inv. Qed.
Print Assumptions ver_fault_preserves_invariant.

(* never an interpreter death (nor an exception): after ANY history of sessions (any number of processes, any
   schedule, kills anywhere) alternating with ANY external faults, no process has ended in Death or Exn *)
Theorem ver_no_interpreter_death : forall orc h st p,
  vhist orc vinit h st -> voutcome_of st p <> Some Death /\ voutcome_of st p <> Some Exn.
Proof. exact vno_death_l. Qed.
Print Assumptions ver_no_interpreter_death.

(* recovery: after any such history a fresh request returns the right assembler within VFUEL steps *)
Theorem ver_recovery_after_faults : forall orc h st p n,
  vhist orc vinit h st -> vprocs st p = None ->
  voutcome_of (vsolo orc VFUEL (vstep orc st (Spawn p n)) p) p = Some (Ok n).
Proof. exact vrecovery_after_faults_l. Qed.
Print Assumptions ver_recovery_after_faults.

(* recovery from EVERY directory: arbitrary states of every file -- every .so, every stamp, every left-over --
   provided only that a .so which IS a finished artefact is the one its name denotes *)
Theorem ver_recovery_every_directory : forall orc st p n,
  vsettled st -> (forall n c, vfiles st (VFinal RSo n) = VComplete c -> fst c = n) ->
  vprocs st p = None ->
  voutcome_of (vsolo orc VFUEL (vstep orc st (Spawn p n)) p) p = Some (Ok n).
Proof. exact vrecovery_every_directory_l. Qed.
Print Assumptions ver_recovery_every_directory.

(* race safety (with faults between sessions): a finished process has the assembler of its form or was killed *)
Theorem ver_race_safety : forall orc st tr p q o,
  VInv st -> vprocs (vrun orc tr st) p = Some q -> vppc q = VDone o -> o = Ok (vform q) \/ o = Killed.
Proof. exact vrace_safety_l. Qed.
Print Assumptions ver_race_safety.

Theorem ver_race_safety_after_faults : forall orc h st p q o,
  vhist orc vinit h st -> vprocs st p = Some q -> vppc q = VDone o -> o = Ok (vform q) \/ o = Killed.
Proof. exact vrace_safety_faults_l. Qed.
Print Assumptions ver_race_safety_after_faults.

Theorem ver_race_liveness : forall orc tr st p q,
  vprocs st p = Some q -> vrank (vppc q) <= steps_of p tr ->
  exists q', vprocs (vrun orc tr st) p = Some q' /\ vform q' = vform q /\ vis_done (vppc q') = true.
Proof. exact vliveness_l. Qed.
Print Assumptions ver_race_liveness.

Theorem ver_killed_only_by_kill : forall orc tr st p q,
  vprocs st p = Some q -> vppc q <> VDone Killed -> ~ In (Kill p) tr ->
  forall q', vprocs (vrun orc tr st) p = Some q' -> vppc q' <> VDone Killed.
Proof. exact vkilled_only_by_kill_l. Qed.
Print Assumptions ver_killed_only_by_kill.

(* an entry once completed is never overwritten by different content.  "Completed" = the .so under the final name
   is a finished artefact; content = the form it was generated from (bytes of two builds differ, as in Props.v).
   Under every schedule it remains a finished artefact of the same form (possibly of another builder b: a racing
   publisher replaces it atomically by ITS finished build of the same source).  What can lapse transiently is only
   the VERIFICATION (stamp of builder a next to the .so of builder b): requests then rebuild instead of importing
   -- see Examples2.stamp_mismatch_rebuilds -- they never load anything else. *)
Theorem ver_completed_never_overwritten : forall orc tr st n c,
  VInv st -> vfiles st (VFinal RSo n) = VComplete c ->
  exists b, vfiles (vrun orc tr st) (VFinal RSo n) = VComplete (fst c, b).
Proof. exact vcompleted_stays_run_l. Qed.
Print Assumptions ver_completed_never_overwritten.

(* nothing but the finished .so and its stamp is ever written under a final name *)
Theorem ver_no_inplace_writes : forall orc tr st r n,
  VInv st -> r <> RSo -> r <> ROk -> vfiles (vrun orc tr st) (VFinal r n) = vfiles st (VFinal r n).
Proof. exact vno_inplace_writes_l. Qed.
Print Assumptions ver_no_inplace_writes.

(* the repair is not "always rebuild": an intact entry (stamp describes the .so) is imported in three steps
   (mkdir, verify, import) and no file is written *)
Theorem ver_cache_hit : forall orc st p n c,
  vprocs st p = None ->
  vfiles st (VFinal ROk n) = VComplete c -> vfiles st (VFinal RSo n) = VComplete c ->
  let st' := vsolo orc VFUEL (vstep orc st (Spawn p n)) p in
  voutcome_of st' p = Some (Ok (fst c)) /\ (forall x, x <> VCacheDir -> vfiles st' x = vfiles st x).
Proof. exact vcache_hit_l. Qed.
Print Assumptions ver_cache_hit.

(* verification accepts exactly: stamp complete, .so complete, same bytes *)
Theorem ver_intact_spec : forall ok so, intact ok so = true <-> exists c, ok = VComplete c /\ so = VComplete c.
Proof. exact intact_spec. Qed.
Print Assumptions ver_intact_spec.

(* NOT PROVED (what is left to the correspondence run):
   - that SHA-256 + size identify the bytes (a damaged .so never verifies): idealisation of [intact];
   - that the stamp parser rejects every truncated stamp (the format ends every line with a newline; tested by
     the tie: dmg-ok-{Empty,Header,Half,AllButLast,Garbage,deleted});
   - damage that hits BETWEEN verify and import of a running request (faults act on quiescent states), and
     everything listed under NOT PROVED in Props.v (monotone writes, rename(2), mkdtemp, digest, correctness
     of the assembler itself). *)
