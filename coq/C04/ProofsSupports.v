(* C04 -- hmesh_cells merges the per-level results: its level-k entry is the union, over the query
   levels lv, of the level-k entries of _TP_to_HMesh_cells(lv, cells[lv]). *)
From Coq Require Import List Arith Bool Lia.
From Verif.lib Require Import FinSet.
From Verif.C04 Require Import Model Proofs Boundary Supports.
Import ListNotations.

Lemma In_fold_union_nth : forall (ds : list (list set)) k c acc,
  In c (fold_left (fun acc d => union acc (nth k d [])) ds acc) <->
  In c acc \/ exists d, In d ds /\ In c (nth k d []).
Proof.
  induction ds as [|d ds IH]; intros k c acc; simpl.
  - split; [auto | intros [H|[d [[] _]]]; auto].
  - rewrite IH, union_In. split.
    + intros [[H|H]|[d' [H1 H2]]]; auto.
      * right; exists d; auto.
      * right; exists d'; auto.
    + intros [H|[d' [[->|H1] H2]]]; auto. right; exists d'; auto.
Qed.

Lemma hmesh_cells_union_l : forall st cells k c,
  In c (nth k (hmesh_cells st cells) []) <->
  k < numlevels st /\ exists lv, lv < numlevels st /\ In c (nth k (tp_to_hmesh st lv (nth lv cells [])) []).
Proof.
  intros st cells k c. unfold hmesh_cells. cbv zeta.
  destruct (Nat.lt_ge_cases k (numlevels st)) as [Hk|Hk].
  - rewrite nth_map_seq by exact Hk. rewrite In_fold_union_nth. simpl. split.
    + intros [[]|[d [Hd Hc]]]. apply in_map_iff in Hd. destruct Hd as [lv [<- Hlv]]. apply in_seq in Hlv.
      split; auto. exists lv. split; [lia | exact Hc].
    + intros [_ [lv [Hlv Hc]]]. right. exists (tp_to_hmesh st lv (nth lv cells [])). split; auto.
      apply in_map_iff. exists lv. split; auto. apply in_seq. lia.
  - rewrite nth_overflow by (rewrite map_length, seq_length; auto). simpl. split; [tauto | intros [H _]; lia].
Qed.
