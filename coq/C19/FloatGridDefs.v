(* C19 -- the intervals of the bounded binary64 theorem, as rationals (the end points used are
   the nearest doubles, NpF.f_of_q = what the decimal / rational literal denotes in Python):
   all intervals with end points k/10 (k = 0..10) resp. 1+k/10, with end points in
   {0,1/4,1/3,1/2,2/3,3/4,1}, in {k/7}, in {-1,-1/2,0,1/4,1/2,3/4,1,3/2,2}, with integer end points in
   {-2,-1,0,1,2,3,5,10}, [0,10^k] (k=-6..6), [10^k,10^(k+1)] (k=-6..5) and 18 further ones.
   266 intervals, cut into 16 chunks that are checked in parallel (FloatGrid1..16.v). *)
From Coq Require Import QArith List Arith.
From Verif.lib Require Import NpF.
Import ListNotations.

Definition grid_all : list (Q * Q) :=
  (pairs_of [0; 1 # 10; 2 # 10; 3 # 10; 4 # 10; 5 # 10; 6 # 10; 7 # 10; 8 # 10; 9 # 10; 1]
   ++ pairs_of [0; 1 # 4; 1 # 3; 1 # 2; 2 # 3; 3 # 4; 1]
   ++ pairs_of [-2; -1; 0; 1; 2; 3; 5; 10]
   ++ pairs_of [0; 1 # 7; 2 # 7; 3 # 7; 4 # 7; 5 # 7; 6 # 7; 1]
   ++ pairs_of [-1; -1 # 2; 0; 1 # 4; 1 # 2; 3 # 4; 1; 3 # 2; 2]
   ++ pairs_of [1; 11 # 10; 12 # 10; 13 # 10; 14 # 10; 15 # 10; 16 # 10; 17 # 10; 18 # 10; 19 # 10; 2]
   ++ [(0, 1 # 1000000); (0, 1 # 100000); (0, 1 # 10000); (0, 1 # 1000); (0, 1 # 100); (0, 1 # 10); (0, 1); (0, 10); (0, 100); (0, 1000); (0, 10000); (0, 100000); (0, 1000000);
      (1 # 1000000, 1 # 100000); (1 # 100000, 1 # 10000); (1 # 10000, 1 # 1000); (1 # 1000, 1 # 100); (1 # 100, 1 # 10); (1 # 10, 1); (1, 10); (10, 100); (100, 1000); (1000, 10000); (10000, 100000); (100000, 1000000)]
   ++ [(-1 # 2, 1 # 4); (1 # 1000, 1000); (100, 1001 # 10); (-37 # 10, 129 # 10); (1234567 # 10, 6543219 # 10); (-1000000, 1000000);
      (0, 7); (-5 # 2, 5 # 2); (10, 11); (-1 # 10, 1 # 10); (11 # 2, 28 # 5); (0, 6283185307179586 # 1000000000000000);
      (1000, 1001); (-1 # 1000000, 1 # 1000000); (7 # 10, 19 # 10); (-73 # 10, -11 # 10); (1 # 20, 19 # 20); (0, 3)])%Q.

Definition chunk_size : nat := 17.
Definition chunk (k : nat) : list (Q * Q) := firstn chunk_size (skipn (chunk_size * k) grid_all).

Lemma grid_all_length : length grid_all = 266%nat.
Proof. vm_compute. reflexivity. Qed.

Lemma grid_all_chunks :
  grid_all = chunk 0 ++ chunk 1 ++ chunk 2 ++ chunk 3 ++ chunk 4 ++ chunk 5 ++ chunk 6 ++ chunk 7 ++ chunk 8 ++ chunk 9 ++ chunk 10 ++ chunk 11 ++ chunk 12 ++ chunk 13 ++ chunk 14 ++ chunk 15.
Proof. vm_compute. reflexivity. Qed.
