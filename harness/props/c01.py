"""C01 -- Compiled assemblers compute exactly the integrand the variational form denotes.

Four layers (DESIGN.md section 4, C01):
  1. front/middle end (finalize)                 = C06, nothing redone here
  2. code generation storage layout               theorems in coq/C01 + EXACT tie to pyiga/codegen/cython.py
  3. quadrature loop structure                     theorems in coq/C01 + exact tie where observable from Python
  4. tool chain (Cython, gcc -O3 -ffast-math, libm, dlopen) runtime only: every accepted form must build,
     import, instantiate and assemble; every sampled entry is compared with an independent interpreter of the
     UN-finalized form (harness/props/c01_oracle.py) at Gauss nodes computed here, bound 1e-10 * sum |terms|
     (running magnitude, see c01_oracle.py).
"""
import collections
import hashlib
import json
import os
import shutil
import time
from concurrent.futures import ThreadPoolExecutor

from harness import core
from harness.core import cbool, clist, cz, log, parse_coq_list_of_nat
from harness.props import c06_gen as gen

PROPS = 'C01/Props.v'
DRIVER = 'harness/impl/c01_driver.py'
NPROC = max(1, min(4, core.NCPU))

# ---------------------------------------------------------------------------------------------
# the fixed corpus of custom forms (covers the grammar; compiled once per source state, then cached)
# ---------------------------------------------------------------------------------------------
CORPUS = [
    ('grad-field-param-sqrt-abs',
     "V = VForm(2)\nu, v = V.basisfuns()\nf = V.input('f')\nc = V.parameter('c')\n"
     "V.add((c * inner(grad(u), grad(v)) + sqrt(f) * u * v / abs(f + 2.0)) * dx)"),
    ('linear3d-physical-det-inv-tr-T',
     "V = VForm(3, arity=1)\nu = V.basisfuns()\npf = V.input('pf', physical=True)\ncm = V.parameter('cm', shape=(3, 3))\n"
     "x = V.Geo\nV.add((pf * tr(dot(inv(cm), cm.T)) + det(V.Jac) * x[2] - (x[0] ** 2 + 1.0) ** -1) * u * dx)"),
    ('vector2d-div-grad-inputvec',
     "V = VForm(2)\nu, v = V.basisfuns(components=(2, 2))\ng = V.input('g', shape=(2,))\n"
     "V.add((inner(grad(u), grad(v)) + div(u) * div(v) + inner(g, u) * inner(g, v) + div(g) * inner(u, v)) * dx)"),
    ('boundary2d-normal-linear',
     "V = VForm(2, boundary=True, arity=1)\nv = V.basisfuns()\ng = V.input('g', shape=(2,))\nf = V.input('f')\n"
     "V.add((inner(g, V.normal) + f) * v * ds)"),
    ('boundary3d-normal-bilinear',
     "V = VForm(3, boundary=True)\nu, v = V.basisfuns()\ng = V.input('g', shape=(3,))\n"
     "V.add((u * v + inner(g, V.normal) * u * v + inner(grad(u), V.normal) * v) * ds)"),
    ('surface2in3-parametric',
     "V = VForm(2, geo_dim=3)\nu, v = V.basisfuns()\nf = V.input('f')\n"
     "V.add((u * v + f * inner(grad(u, parametric=True), grad(v, parametric=True)) + Dx(f, 1, parametric=True) * u * v) * ds)"),
    ('petrov-galerkin-matrixfield',
     "V = VForm(2)\nu, v = V.basisfuns(spaces=(0, 1))\nM = V.input('M', shape=(2, 2))\ncv = V.parameter('cv', shape=(2,))\n"
     "V.add((inner(dot(M, grad(u)), grad(v)) + inner(cv, grad(u)) * v + Dx(u, 0) * Dx(v, 1, parametric=True) / M[1, 1]) * dx)"),
    ('hessians-2d',
     "V = VForm(2)\nu, v = V.basisfuns()\nf = V.input('f')\n"
     "V.add((tr(hess(u)) * tr(hess(v)) + tr(hess(f)) * u * v + inner(hess(u), outer(grad(f), grad(v)))) * dx)"),
    ('cross-curl-3d-vector',
     "V = VForm(3)\nu, v = V.basisfuns(components=(3, 3))\ncv = V.parameter('cv', shape=(3,))\n"
     "V.add((inner(curl(u), curl(v)) + inner(cross(u, cv), v)) * dx)"),
    ('spacetime-heat-2d-field',
     "V = VForm(2, spacetime=True)\nu, v = V.basisfuns()\nf = V.input('f')\n"
     "V.add((f * inner(grad(u), grad(v)) + u.dt() * v - u * v.dt()) * dx)"),
    ('onedim-second-derivs',
     "V = VForm(1)\nu, v = V.basisfuns()\nc = V.parameter('c')\nV.add((Dx(Dx(u, 0), 0) * Dx(v, 0) + c * u * v / (V.Geo[0] + 3.0)) * dx)"),
    ('symmetric-let-3d',
     "V = VForm(3)\nu, v = V.basisfuns()\nf = V.input('f')\n"
     "B = V.let('B', V.W * dot(V.JacInv, V.JacInv.T), symmetric=True)\n"
     "V.add(B.dot(grad(u, parametric=True)).dot(grad(v, parametric=True)) + f * B[2, 0] * u * v)"),
    ('derivatives-of-quotients-products-powers',
     "V = VForm(2)\nu, v = V.basisfuns()\nf = V.input('f')\ng = V.input('g', shape=(2,))\n"
     "V.add((Dx(f / g[0], 0) * u * v + inner(grad(f * g[1] / (g[0] + 2.0)), grad(v)) * u + Dx(u / f, 1, parametric=True) * v"
     " + div(g / f) * u * v + Dx((f * f) / (g[1] * f), 1) * u * v + Dx((f * g[0]) ** 2, 0, parametric=True) * u * v) * dx)"),
    ('derivatives-of-quotients-3d-linear',
     "V = VForm(3, arity=1)\nu = V.basisfuns()\nf = V.input('f')\nx = V.Geo\n"
     "V.add((Dx(f / (x[0] * x[0] + 2.0), 2) + inner(grad(x[1] / f), grad(u / f))) * u * dx)"),
    ('precedence-div-by-product-neg-powers',
     "V = VForm(2)\nu, v = V.basisfuns()\nf = V.input('f')\nc = V.parameter('c')\nx = V.Geo\n"
     "V.add((u * v / (c * f) + (f ** -2) * u * v / (f / (c * 2.0)) - (-(f * c)) ** 3 * u * v"
     " + 1.0 / (f * c) * u * (-v) / ((-c) ** -1) + (f - c / (f * 2.0)) / (f / c / 2.0) * u * v - u / (f * (x[0] * x[0] + 2.0)) * -v) * dx)"),
    ('precedence-linear-1d',
     "V = VForm(1, arity=1)\nu = V.basisfuns()\nf = V.input('f')\nc = V.parameter('c')\n"
     "V.add((u / (f * c) / (c / (f * f)) - -(u * f) / -(c * c) + (f / c) ** -3 * Dx(u, 0) / (f * -c)) * dx)"),
    # documented builtin functions that reach libm (and, vectorised under -ffast-math, libmvec)
    ('builtins-exp-sin-cos-log-tan',
     "V = VForm(2)\nu, v = V.basisfuns()\nf = V.input('f')\nc = V.parameter('c')\nx = V.Geo\n"
     "V.add((exp(f / 4.0) * sin(x[0]) + cos(c) * log(f + 2.0) + tan(f / 4.0)) * u * v * dx)"),
]

# Two-space (Petrov-Galerkin) forms, run in EVERY quick run on fixed degree orderings: space-1 degree higher /
# lower / equal, mixed per axis, 1-D to 3-D, identity and curved geometry.  (p0, p1, geometry)
PG_FORMS = [
    ('pg-1d-mass', "V = VForm(1)\nu, v = V.basisfuns(spaces=(0, 1))\nV.add(u * v * dx)",
     [([1], [3], 'identity'), ([3], [1], 'identity'), ([2], [2], 'random'), ([1], [2], 'random'), ([3], [2], 'random'),
      ([1], [3], 'random')]),
    ('pg-2d-mass-stiffness', "V = VForm(2)\nu, v = V.basisfuns(spaces=(0, 1))\nV.add((u * v + inner(grad(u), grad(v))) * dx)",
     [([1, 2], [3, 1], 'random'), ([2, 1], [1, 3], 'identity'), ([3, 1], [1, 2], 'random'), ([2, 2], [2, 2], 'identity'),
      ([1, 1], [2, 3], 'random'), ([1, 1], [3, 3], 'identity'), ([3, 3], [1, 1], 'random')]),
    ('pg-3d-mass', "V = VForm(3)\nu, v = V.basisfuns(spaces=(0, 1))\nV.add(u * v * dx)",
     [([1, 1, 1], [2, 1, 3], 'random'), ([2, 3, 1], [1, 1, 2], 'identity'), ([2, 2, 2], [2, 2, 2], 'random'),
      ([1, 2, 1], [2, 1, 2], 'identity')]),
]

def precedence_form(rng, k):
    """operator-precedence stress: divisions by products and quotients, nested divisions, negative integer powers,
    unary minus inside products and powers; atoms are positive so that most values are finite"""
    atoms = ['f', 'c', '2.0', '0.5', '(x[0] * x[0] + 1.5)', 'f', 'c']

    def E(depth, noneg=False):
        if depth <= 0 or rng.random() < 0.2:
            return rng.choice(atoms)
        a, b, c2 = E(depth - 1, noneg), E(depth - 1, noneg), E(depth - 1, noneg)
        kinds = ['div_prod', 'div_quot', 'prod_div_prod', 'negpow', 'sub_div', 'inv_prod', 'div_div', 'mul', 'add']
        if not noneg:
            kinds += ['neg_in_prod', 'neg_pow', 'div_neg']
        k2 = rng.choice(kinds)
        return {
            'div_prod': '(%s / (%s * %s))' % (a, b, c2),
            'div_quot': '(%s / (%s / %s))' % (a, b, c2),
            'prod_div_prod': '((%s * %s) / (%s * %s))' % (a, b, c2, a),
            'negpow': '((%s * %s) ** -%d)' % (a, b, rng.choice([1, 2, 3])),
            'neg_in_prod': '(-(%s) * %s * -(%s))' % (a, b, c2),
            'neg_pow': '((-(%s * %s)) ** %d)' % (a, b, rng.choice([2, 3])),
            'div_neg': '(%s / -(%s * %s))' % (a, b, c2),
            'sub_div': '(%s + %s / (%s * %s))' % (a, b, c2, a),
            'inv_prod': '(1.0 / (%s * %s))' % (a, b),
            'div_div': '(%s / %s / %s)' % (a, b, c2),
            'mul': '(%s * %s)' % (a, b),
            'add': '(%s + %s)' % (a, b),
        }[k2]
    d = rng.choice([1, 2])
    arity = rng.choice([1, 2, 2])
    lines = ['V = VForm(%d%s)' % (d, ', arity=1' if arity == 1 else ''),
             'u, v = V.basisfuns()' if arity == 2 else 'u = V.basisfuns()',
             "f = V.input('f')", "c = V.parameter('c')", 'x = V.Geo']
    bf = 'u * v' if arity == 2 else 'u'
    coef = E(2)
    if rng.random() < 0.6:
        # derivative (physical or parametric) of a quotient / product / power of fields: no unary minus inside (NegExpr is
        # documented as not differentiable)
        coef = '(%s + Dx(%s, %d%s))' % (coef, E(2, noneg=True), rng.randrange(d), rng.choice(['', ', parametric=True']))
    lines.append('V.add(%s * %s / (%s * %s) * dx)' % (coef, bf, E(1), E(1)))
    return {'id': 'p%03d' % k, 'code': '\n'.join(lines), 'stream': 'precedence', 'kind': 'precedence', 'dim': d, 'arity': arity}


SHIPPED = ['V = mass_vf(2)', 'V = mass_vf(3)', 'V = stiffness_vf(2)', 'V = stiffness_vf(3)', 'V = heat_st_vf(2)',
           'V = heat_st_vf(3)', 'V = wave_st_vf(2)', 'V = wave_st_vf(3)', 'V = divdiv_vf(2)', 'V = divdiv_vf(3)',
           'V = L2functional_vf(2)', 'V = L2functional_vf(3)', 'V = L2functional_vf(2, physical=True)',
           'V = L2functional_vf(3, physical=True)']


# ---------------------------------------------------------------------------------------------
# layer 2/3: exact tie of the layout functions
# ---------------------------------------------------------------------------------------------

HEADER = '''From Coq Require Import List Arith Bool ZArith.
From Verif.C01 Require Import Model.
Import ListNotations.
Open Scope nat_scope.
Fixpoint leqb (a b : list nat) : bool :=
  match a, b with [] , [] => true | x :: a', y :: b' => Nat.eqb x y && leqb a' b' | _, _ => false end.
Definition peqb (a b : nat * nat) : bool := Nat.eqb (fst a) (fst b) && Nat.eqb (snd a) (snd b).
Fixpoint lpeqb (a b : list (nat * nat)) : bool :=
  match a, b with [], [] => true | x :: a', y :: b' => peqb x y && lpeqb a' b' | _, _ => false end.
Definition teqb (a b : nat * nat * nat) : bool := peqb (fst a) (fst b) && Nat.eqb (snd a) (snd b).
Fixpoint lteqb (a b : list (nat * nat * nat)) : bool :=
  match a, b with [], [] => true | x :: a', y :: b' => teqb x y && lteqb a' b' | _, _ => false end.
Definition V := mkVar.
(* sym table: all (i,j) of an n x n table *)
Definition sym_ok (n : nat) (tbl : list (list nat)) : bool :=
  forallb (fun i => leqb (map (fun j => sym_index_to_seq n i j) (seq 0 n)) (nth i tbl [])) (seq 0 n)
  && Nat.eqb (length tbl) n.
(* allocate_array: (size, offset) per variable, total, storage_size *)
Definition alloc_ok (vars : list var) (info : list (nat * nat)) (tot : nat) (sizes : list nat) : bool :=
  lpeqb (fst (allocate_array vars)) info && Nat.eqb (snd (allocate_array vars)) tot
  && leqb (map storage_size vars) sizes.
(* storage_index / the slot var_ref prints *)
Definition idx_ok (v : var) (cases : list (list nat * nat)) : bool :=
  forallb (fun c => Nat.eqb (storage_index v (fst c)) (snd c)) cases.
Definition slot_ok (vars : list var) (k : nat) (cases : list (list nat * nat)) : bool :=
  forallb (fun c => Nat.eqb (var_ref_slot vars k (fst c)) (snd c)) cases.
Definition pd_ok (dim nd : nat) (D : list nat) (facs : list (nat * nat * nat)) : bool :=
  lteqb (gen_pderiv dim nd D) facs.
Definition supp_ok (q p : nat) (kv : list Z) (supp : list (nat * nat)) (nnodes nspans : nat) : bool :=
  lpeqb (meshsupp q p kv) supp && Nat.eqb nnodes (q * nspans).
(* the value of the generated `self.nqp = ...` expression on the degree lists of both spaces *)
Definition nqp_ok (cases : list (list nat * list nat * nat)) : bool :=
  forallb (fun c => Nat.eqb (nqp_spaces (fst (fst c)) (snd (fst c))) (snd c)) cases.
(* gen_assign of a variable at offset ofs: the slots it assigns, in the emitted order = the keys of [writes] of
   coq/C01/Kernel3.v (symmetric: only i <= j, through sym_index_to_seq; otherwise row-major 0 .. sz-1) *)
Definition symw_ok (m ofs : nat) (impl : list nat) : bool :=
  leqb (map (fun ij => ofs + sym_index_to_seq m (fst ij) (snd ij)) (assigned_entries m m true)) impl.
Definition roww_ok (sz ofs : nat) (impl : list nat) : bool := leqb (map (Nat.add ofs) (seq 0 sz)) impl.
Fixpoint bad (cs : list (nat * bool)) : list nat :=
  match cs with [] => [] | (k, b) :: r => if b then bad r else k :: bad r end.
'''


def cvar(shape, sym):
    return 'V %s %s' % (clist(shape), cbool(sym))


def cidx(cases):
    return clist(['(%s, %d)' % (clist(I), s) for I, s in cases])


def gen_layout_payload(ctx, forms):
    rng = ctx.rng
    thorough = ctx.tier == 'thorough'
    varlists = []
    for _ in range(60 if thorough else 25):
        vl = []
        for _v in range(rng.randint(1, 6)):
            k = rng.choice(['s', 'v', 'm', 'sym', 'sym', 'm'])
            if k == 's':
                vl.append([[], False])
            elif k == 'v':
                vl.append([[rng.randint(1, 6)], False])
            elif k == 'm':
                vl.append([[rng.randint(1, 4), rng.randint(1, 4)], rng.random() < 0.1 and False])
            else:
                n = rng.randint(1, 5)
                vl.append([[n, n], True])
        varlists.append(vl)
    pderivs = []
    for _ in range(80 if thorough else 40):
        dim = rng.randint(1, 3)
        nd = rng.randint(0, 3)
        D = [rng.randint(0, nd) for _ in range(dim)]
        pderivs.append([dim, nd, D])
    kvs = []
    for _ in range(60 if thorough else 25):
        p = rng.randint(1, 4)
        nb = rng.randint(0, 5)
        inner = sorted(rng.sample(range(1, 32), nb))
        a = rng.choice([0, -32, 16])
        kn = [a] * (p + 1)
        for x in inner:
            kn += [a + x] * rng.randint(1, p)
        kn += [a + 32] * (p + 1)
        kvs.append([p, [x / 32.0 for x in kn], rng.randint(1, 5)])
    # degree lists of (space 0, space 1) on which the generated `self.nqp = ...` line is evaluated: every ordering
    nqp_configs = []
    for dim in (1, 2, 3):
        for _ in range(6):
            nqp_configs.append([[rng.randint(1, 4) for _ in range(dim)], [rng.randint(1, 4) for _ in range(dim)]])
        nqp_configs += [[[1] * dim, [3] * dim], [[3] * dim, [1] * dim], [[2] * dim, [2] * dim],
                        [[1] * dim, [1] * (dim - 1) + [4]], [[1] * (dim - 1) + [4], [1] * dim]]
    return {'mode': 'layout', 'sym_ns': list(range(0, 9)), 'varlists': varlists, 'pderivs': pderivs, 'kvs': kvs,
            'forms': forms, 'nqp_configs': nqp_configs}


def layout_cases(payload, out):
    """-> list of (description, coq bool expression, replay dict)"""
    cases = []
    for n, tbl in out['sym']:
        cases.append(('sym_index_to_seq table n=%d' % n, 'sym_ok %d %s' % (n, clist([clist(r) for r in tbl])),
                      {'fn': 'vform.sym_index_to_seq', 'n': n, 'impl': tbl}))
    for vl, a in zip(payload['varlists'], out['alloc']):
        vars_ = clist([cvar(s, y) for s, y in vl])
        info = clist(['(%d, %d)' % (v['sz'], v['ofs']) for v in a['vars']])
        sizes = clist([v['size_fn'] for v in a['vars']])
        cases.append(('allocate_array/storage_size', 'alloc_ok %s %s %d %s' % (vars_, info, a['total'], sizes),
                      {'fn': 'codegen.allocate_array', 'vars': vl, 'impl': {'total': a['total'], 'info': [[v['sz'], v['ofs']] for v in a['vars']]}}))
        for (s, y), v in zip(vl, a['vars']):
            cases.append(('storage_index', 'idx_ok (%s) %s' % (cvar(s, y), cidx(v['idx'])),
                          {'fn': 'codegen.storage_index', 'shape': s, 'symmetric': y, 'impl': v['idx']}))
    for (dim, nd, D), r in zip(payload['pderivs'], out['pderiv']):
        if not r['ok']:
            continue
        facs = r['factors']
        axes_ok = all(f[0] == f[3] for f in facs)
        cases.append(('gen_pderiv', '%s && pd_ok %d %d %s %s' % (cbool(axes_ok), dim, nd, clist(D),
                                                                  clist(['(%d, %d, %d)' % (f[0], f[1], f[2]) for f in facs])),
                      {'fn': 'AsmGenerator.gen_pderiv', 'dim': dim, 'numderiv': nd, 'D': D, 'impl': r['text']}))
    for (p, kn, q), r in zip(payload['kvs'], out['kvs']):
        kz = clist([cz(round(x * 32)) for x in kn])
        cases.append(('mesh_support_idx_all * nqp / nodes per span',
                      'supp_ok %d %d %s %s %d %d' % (q, p, kz, clist(['(%d, %d)' % tuple(s) for s in r['supp']]), r['nnodes'], r['nspans']),
                      {'fn': 'KnotVector.mesh_support_idx_all', 'p': p, 'knots': kn, 'nqp': q, 'impl': r['supp']}))
    return cases


def form_layout_cases(spec, r):
    cases = []
    import re
    for arr, a in r['arrays'].items():
        if not a['vars']:
            continue
        vars_ = clist([cvar(v['shape'], v['symmetric']) for v in a['vars']])
        info = clist(['(%d, %d)' % (v['sz'], v['ofs']) for v in a['vars']])
        cases.append(('form %s: layout of %s' % (spec['id'], arr),
                      'alloc_ok %s %s %d %s' % (vars_, info, a['total'], clist([v['sz'] for v in a['vars']])),
                      {'code': spec['code'], 'array': arr, 'impl': a}))
        for k, v in enumerate(a['vars']):
            sl = []
            okfmt = True
            for I, ref in v['refs']:
                m = re.match(r'^%s\[(\d+)\]$' % arr, ref)
                if not m:
                    okfmt = False
                    break
                sl.append((I, int(m.group(1))))
            cases.append(('form %s: var_ref of %s in %s' % (spec['id'], v['name'], arr),
                          '%s && slot_ok %s %d %s' % (cbool(okfmt), vars_, k, cidx(sl)),
                          {'code': spec['code'], 'array': arr, 'var': v}))
    # the assignment statements of every computed variable that lives in fields[]/constants[]: slots in the emitted order
    for arr in ('fields', 'constants'):
        a = r['arrays'].get(arr)
        if not a:
            continue
        seqs = [int(re.match(r'^%s\[(\d+)\]$' % arr, st[0]).group(1)) for st in r.get('pre_stmts', []) + r.get('kernel_stmts', [])
                if st[1] == '=' and re.match(r'^%s\[(\d+)\]$' % arr, st[0])]
        for v in a['vars']:
            mine = [x for x in seqs if v['ofs'] <= x < v['ofs'] + v['sz']]
            if not mine:
                continue        # an input field / parameter: loaded, not assigned
            if v['symmetric']:
                cases.append(('form %s: gen_assign slots of symmetric %s' % (spec['id'], v['name']),
                              'symw_ok %d %d %s' % (v['shape'][0], v['ofs'], clist(mine)), {'code': spec['code'], 'array': arr, 'var': v['name'], 'impl': mine}))
            else:
                cases.append(('form %s: gen_assign slots of %s' % (spec['id'], v['name']),
                              'roww_ok %d %d %s' % (v['sz'], v['ofs'], clist(mine)), {'code': spec['code'], 'array': arr, 'var': v['name'], 'impl': mine}))
    if r.get('nqp_values') is not None:
        ok = r.get('nqp_expr') is not None and len(r['nqp_values']) > 0 and all(v[2] >= 0 for v in r['nqp_values'])
        cases.append(('form %s: nqp' % spec['id'],
                      '%s && nqp_ok %s' % (cbool(ok), clist(['(%s, %s, %d)' % (clist(a), clist(b), max(v, 0)) for a, b, v in r['nqp_values']])),
                      {'code': spec['code'], 'generated_line': 'self.nqp = %s' % r.get('nqp_expr'), 'one_space': r.get('one_space'),
                       'impl': r['nqp_values'], 'expected': 'max degree over the knot vectors of BOTH spaces + 1'}))
    for pdv in r['pderivs']:
        facs = pdv['factors']
        axes_ok = all(f[0] == f[3] for f in facs)
        cases.append(('form %s: gen_pderiv D=%s' % (spec['id'], pdv['D']),
                      '%s && pd_ok %d %d %s %s' % (cbool(axes_ok), r['dim'], r['numderiv'], clist(pdv['D']),
                                                    clist(['(%d, %d, %d)' % (f[0], f[1], f[2]) for f in facs])),
                      {'code': spec['code'], 'D': pdv['D'], 'impl': facs}))
    return cases


def check_form_layout_on_impl(spec, r):
    """The layout conjuncts evaluated directly on the generator's output (no model):
    slots of distinct entries are distinct and inside the array, symmetric variables use the
    upper triangle for both (i,j) and (j,i), every slot the kernel reads was written."""
    import re
    for arr, a in r['arrays'].items():
        seen = {}
        for v in a['vars']:
            for I, ref in v['refs']:
                m = re.match(r'^%s\[(\d+)\]$' % arr, ref)
                if not m:
                    return ('ref-format', 'var_ref(%s, %s) = %r is not a reference into %s' % (v['name'], I, ref, arr))
                s = int(m.group(1))
                if not (0 <= s < a['total']):
                    return ('slot-outside', 'slot %d of %s%s outside %s of size %d' % (s, v['name'], I, arr, a['total']))
                key = (v['name'], tuple(sorted(I)) if v['symmetric'] else tuple(I))
                if seen.setdefault(s, key) != key:
                    return ('slot-shared', 'slot %s[%d] is used by %s and %s' % (arr, s, seen[s], key))
            if v['symmetric']:
                n = v['shape'][0]
                byI = {tuple(I): ref for I, ref in v['refs']}
                for i in range(n):
                    for j in range(n):
                        if byI[(i, j)] != byI[(j, i)]:
                            return ('sym-asym', '%s[%d,%d] and [%d,%d] use different slots' % (v['name'], i, j, j, i))
    written = set(r['pre_writes']['fields'])
    for (arrname, a, b) in r['loads']:
        if arrname == 'self.fields':
            written |= set(range(a, b))
    miss = [s for s in r['kernel_reads']['fields'] if s not in written]
    if miss:
        return ('read-unwritten', 'the kernel reads fields%s which neither __init__ nor precompute_fields writes' % miss)
    tl = set()
    for (arrname, a, b) in r['loads']:
        if arrname == 'temp_fields':
            tl |= set(range(a, b))
    miss = [s for s in r['pre_reads']['temp_fields'] if s not in tl]
    if miss:
        return ('read-unwritten-temp', 'precompute_fields reads temp_fields%s which __init__ does not load' % miss)
    # statement order (the program model of coq/C01/Kernel.v executes the assignments in the emitted order):
    # whatever a statement reads was assigned by an EARLIER statement, loaded by __init__, or is a jet / weight /
    # loop index / builtin; nothing is assigned twice
    ext = re.compile(r'^(VD\w+|_gw\d+|i\d+|fabs|sqrt|exp|log|sin|cos|tan|r(\[\d+\])?|result(\[\d+\])?)$')
    fl = set('fields[%d]' % k for (arrname, a, b) in r['loads'] if arrname == 'self.fields' for k in range(a, b))
    tl0 = set('temp_fields[%d]' % k for (arrname, a, b) in r['loads'] if arrname == 'temp_fields' for k in range(a, b))
    par = set('constants[%d]' % k for k in range(r['nparams_slots']))
    defined = fl | tl0 | par
    for fn, sts in (('precompute_fields', r.get('pre_stmts', [])), ('combine', r.get('kernel_stmts', []))):
        local = set(defined)
        assigned = set()
        for lhs, op, reads in sts:
            for t in reads:
                if not ext.match(t) and t not in local:
                    return ('read-before-write', '%s: `%s %s ...` reads %s before any statement assigns it' % (fn, lhs, op, t))
            if op == '=':
                if lhs in assigned and not lhs.startswith('result'):
                    return ('assigned-twice', '%s: %s is assigned twice' % (fn, lhs))
                assigned.add(lhs)
                local.add(lhs)
        # what precompute wrote into fields/constants is visible to the kernel
        defined |= set(x for x in local if x.startswith(('fields[', 'constants[')))
    cw = set(r['pre_writes']['constants']) | set(range(r['nparams_slots']))
    miss = [s for s in r['kernel_reads']['constants'] if s not in cw]
    if miss:
        return ('read-unwritten-const', 'the kernel reads constants%s which are never set' % miss)
    return None


# ---------------------------------------------------------------------------------------------
# printed code <-> expression tree: a C/Cython expression parser (independent of the generator)
# ---------------------------------------------------------------------------------------------
import re as _re

_TOK = _re.compile(r'\s*(?:(\d+\.?\d*(?:[eE][-+]?\d+)?|\.\d+(?:[eE][-+]?\d+)?)|([A-Za-z_][\w\.]*)|(.))')


class CodeParseError(Exception):
    pass


def c_tokens(text):
    out = []
    pos = 0
    text = text.rstrip()
    while pos < len(text):
        m = _TOK.match(text, pos)
        if not m:
            raise CodeParseError('cannot tokenise at %d' % pos)
        pos = m.end()
        if m.group(1) is not None:
            out.append(('num', m.group(1)))
        elif m.group(2) is not None:
            out.append(('id', m.group(2)))
        else:
            out.append(('op', m.group(3)))
    return out


def c_parse(text):
    """Parse with the precedence of C / Cython arithmetic: unary minus binds tighter than * and /, these tighter
    than + and -, binary operators associate to the left.  -> nested lists
    ['O', op, x, y] | ['N', x] | ['F', name, x] | ['L', atom text]"""
    toks = c_tokens(text)
    pos = [0]

    def peek():
        return toks[pos[0]] if pos[0] < len(toks) else (None, None)

    def take():
        t = peek()
        pos[0] += 1
        return t

    def expect(ch):
        if take() != ('op', ch):
            raise CodeParseError('expected %r' % ch)

    def index_suffix():
        # name[ ... ] : the bracket content is an index expression, kept as text
        depth = 0
        buf = ''
        while True:
            k, v = take()
            if k is None:
                raise CodeParseError('unterminated index')
            buf += v
            if (k, v) == ('op', '['):
                depth += 1
            elif (k, v) == ('op', ']'):
                depth -= 1
                if depth == 0:
                    return buf

    def atom():
        k, v = peek()
        if (k, v) == ('op', '-'):
            take()
            return ['N', atom()]
        if (k, v) == ('op', '('):
            take()
            e = expr(1)
            expect(')')
            return e
        if k == 'num':
            take()
            return ['L', repr(float(v))]
        if k == 'id':
            take()
            if peek() == ('op', '('):
                take()
                e = expr(1)
                expect(')')
                return ['F', v, e]
            if peek() == ('op', '['):
                return ['L', v + index_suffix()]
            return ['L', v]
        raise CodeParseError('unexpected token %r' % (v,))

    PREC = {'+': 1, '-': 1, '*': 2, '/': 2}

    def expr(lvl):
        a = atom()
        while True:
            k, v = peek()
            if k == 'op' and v in PREC and PREC[v] >= lvl:
                take()
                b = expr(PREC[v] + 1)
                a = ['O', v, a, b]
            else:
                return a
    e = expr(1)
    if pos[0] != len(toks):
        raise CodeParseError('trailing tokens')
    return e


def expected_tree(sk):
    """the tree the generator was asked to print: operators as in the expression, leaves as their own printed text parses"""
    if sk[0] == 'O':
        return ['O', sk[1], expected_tree(sk[2]), expected_tree(sk[3])]
    if sk[0] == 'N':
        return ['N', expected_tree(sk[1])]
    if sk[0] == 'F':
        return ['F', sk[1], expected_tree(sk[2])]
    t = c_parse(sk[1])
    return t


def check_printed(printed):
    """-> None or (text, why)"""
    for txt, sk in printed:
        try:
            got = c_parse(txt)
            exp = expected_tree(sk)
        except CodeParseError as e:
            return (txt, 'the printed code does not parse as a C expression (%s)' % e)
        if got != exp:
            return (txt, 'read with the operator precedence of C the printed code is a different expression tree')
    return None


# ---- exact tie of the Coq printer (coq/C01/Printer.v: print) to the generated characters ---------------------
PRINT_HEADER = '''From Coq Require Import List String Bool Arith.
From Verif.C06 Require Import Model.
From Verif.C01 Require Import Model Kernel Printer.
Import ListNotations.
Open Scope nat_scope.
Definition operb (a b : oper) : bool :=
  match a, b with OAdd, OAdd | OSub, OSub | OMul, OMul | ODiv, ODiv => true | _, _ => false end.
(* the lexer cannot tell the binary from the prefix minus: both are the character '-' *)
Definition norm (t : tok nat) : tok nat := match t with TMinus _ => TOp nat OSub | _ => t end.
Definition tokb (a b : tok nat) : bool :=
  match norm a, norm b with
  | TNum _ x, TNum _ y => Nat.eqb x y
  | TLoc _ (LField x), TLoc _ (LField y) => Nat.eqb x y
  | TPD _ _ [x], TPD _ _ [y] => Nat.eqb x y
  | TFn _ f, TFn _ g => String.eqb f g
  | TLP _, TLP _ => true
  | TRP _, TRP _ => true
  | TOp _ o, TOp _ o' => operb o o'
  | _, _ => false
  end.
Fixpoint toksb (a b : list (tok nat)) : bool :=
  match a, b with [], [] => true | x :: a', y :: b' => tokb x y && toksb a' b' | _, _ => false end.
Definition print_ok (c : cexpr nat) (ts : list (tok nat)) : bool := toksb (print nat c) ts.
Fixpoint bad (cs : list (nat * bool)) : list nat :=
  match cs with [] => [] | (k, b) :: r => if b then bad r else k :: bad r end.
'''

_PDG = r'\((?:VD\w+\[[^\]\[]*\])(?: \* VD\w+\[[^\]\[]*\])*\)'
_NUM = r'\d+\.?\d*(?:[eE][-+]?\d+)?|\.\d+(?:[eE][-+]?\d+)?'
_IDX = r'[A-Za-z_][\w\.]*(?:\[[^\]\[]*\])?'
_LEX = _re.compile(r'\s*(?:(%s)|(%s)|(%s)|(.))' % (_PDG, _NUM, _IDX))
_OPN = {'+': 'OAdd', '-': 'OSub', '*': 'OMul', '/': 'ODiv'}


def coq_print_case(txt, sk):
    """-> 'print_ok <cexpr> <tokens>' or None when a leaf is outside the token classes of the printer model"""
    atoms = {}

    def aid(t):
        return atoms.setdefault(t, len(atoms))

    def cx(k):
        if k[0] == 'O':
            a, b = cx(k[2]), cx(k[3])
            return None if a is None or b is None else '(COp nat %s %s %s)' % (_OPN[k[1]], a, b)
        if k[0] == 'N':
            a = cx(k[1])
            return None if a is None else '(CNeg nat %s)' % a
        if k[0] == 'F':
            a = cx(k[2])
            return None if a is None else '(CFn nat "%s" %s)' % (k[1], a)
        t = k[1]
        if _re.fullmatch(_PDG, t):
            return '(CPD nat "" [%d])' % aid(t)
        m = _re.fullmatch(r'(-?)(%s)' % _NUM, t)
        if m:
            c = '(CConst nat %d)' % aid(repr(float(m.group(2))))
            return '(CNeg nat %s)' % c if m.group(1) else c          # -2.0 = minus sign + literal (exact in IEEE)
        if _re.fullmatch(_IDX, t):
            return '(CRead nat (LField %d))' % aid(t)
        return None
    c = cx(sk)
    if c is None:
        return None
    toks = []
    pos = 0
    txt = txt.rstrip()
    while pos < len(txt):
        m = _LEX.match(txt, pos)
        if not m:
            return None
        pos = m.end()
        if m.group(1) is not None:
            toks.append('TPD nat "" [%d]' % aid(m.group(1)))
        elif m.group(2) is not None:
            toks.append('TNum nat %d' % aid(repr(float(m.group(2)))))
        elif m.group(3) is not None:
            if txt[pos:pos + 1] == '(' and '[' not in m.group(3):
                toks.append('TFn nat "%s"' % m.group(3))
            else:
                toks.append('TLoc nat (LField %d)' % aid(m.group(3)))
        else:
            ch = m.group(4)
            if ch == '(':
                toks.append('TLP nat')
            elif ch == ')':
                toks.append('TRP nat')
            elif ch == '-':
                toks.append('TMinus nat')
            elif ch in _OPN:
                toks.append('TOp nat %s' % _OPN[ch])
            else:
                return None
    return 'print_ok %s %s' % (c, clist(toks))


# ---------------------------------------------------------------------------------------------
# layer 4
# ---------------------------------------------------------------------------------------------

def xdg_dir(ctx):
    """compiled forms are cached per extension hash AND per state of the build recipe
    (pyiga/compile.py): a change of compiler/linker options must not meet an old module."""
    ctx.impl.build()
    h = hashlib.sha256()
    for rel in ('pyiga/compile.py',):
        with open(os.path.join(ctx.impl.dir, rel), 'rb') as f:
            h.update(f.read())
    base = os.path.join(core.CACHE, 'xdg')
    d = os.path.join(base, '%s-C01-%s' % (ctx.impl.sha, h.hexdigest()[:12]))
    os.makedirs(d, exist_ok=True)
    os.utime(d, None)
    mine = sorted((os.path.getmtime(os.path.join(base, e)), e) for e in os.listdir(base) if '-C01-' in e)
    for _, e in mine[:-4]:
        shutil.rmtree(os.path.join(base, e), ignore_errors=True)
    return d


_SETARCH = []


def impl_run_noaslr(ctx, payload, timeout, xdg):
    """ctx.impl.run with address-space randomisation switched off (setarch -R) when available: the text
    compile.generate() produces depends on object addresses (set iteration order), and the on-disk module
    cache is keyed on that text.  Only the cache hit rate depends on this, never a verdict."""
    import subprocess
    if not _SETARCH:
        ok = shutil.which('setarch') is not None and subprocess.run(
            ['setarch', 'x86_64', '-R', 'true'], stdout=subprocess.DEVNULL, stderr=subprocess.DEVNULL).returncode == 0
        _SETARCH.append(['setarch', 'x86_64', '-R'] if ok else [])
    ctx.impl.build()
    p = subprocess.run(_SETARCH[0] + [core.PY, os.path.join(core.VERIF, DRIVER)], input=json.dumps(payload), text=True,
                       stdout=subprocess.PIPE, stderr=subprocess.PIPE, env=ctx.impl.env(None, '0', xdg),
                       timeout=timeout, cwd=ctx.impl.dir)
    if p.returncode != 0:
        raise core.DriverError('driver exited %d\n%s' % (p.returncode, p.stderr[-3000:]))
    for line in reversed(p.stdout.splitlines()):
        line = line.strip()
        if line.startswith('{'):
            return json.loads(line)
    raise core.DriverError('driver printed no JSON\n%s' % p.stderr[-2000:])


def run_asm(ctx, specs, xdg, max_pairs=400, timeout=3000, extra=None):
    """run form specs through the driver, NPROC processes, longest-first round robin"""
    if not specs:
        return []
    buckets = [[] for _ in range(min(NPROC, len(specs)))]
    for k, s in enumerate(specs):
        buckets[k % len(buckets)].append(s)

    def one(b):
        payload = {'mode': 'asm', 'forms': b, 'max_pairs': max_pairs}
        if extra:
            payload.update(extra)
        import subprocess
        try:
            return impl_run_noaslr(ctx, payload, timeout, xdg)['results']
        except subprocess.TimeoutExpired:
            # an overloaded machine is not a property violation: the forms are recorded as not run
            return [{'id': s.get('id'), 'status': 'Timeout'} for s in b]
        except Exception as e:  # driver crash (segfault): every form of the bucket is unexplained
            return [{'id': s.get('id'), 'status': 'DriverCrash', 'msg': str(e)[-600:]} for s in b]
    with ThreadPoolExecutor(max_workers=len(buckets)) as ex:
        outs = list(ex.map(one, buckets))
    byid = {}
    for b, o in zip(buckets, outs):
        for s, r in zip(b, o):
            byid[s['id']] = r
    return [byid[s['id']] for s in specs]


def toolchain_signature(res):
    msg = res.get('msg') or ''
    st = res['status']
    if 'undefined symbol' in msg:
        sym = msg.split('undefined symbol:')[-1].strip().split()[0] if 'undefined symbol:' in msg else '?'
        if sym.startswith('_ZGV'):
            return 'impl:import-fails:undefined-symbol-libmvec'
        return 'impl:import-fails:undefined-symbol:' + sym
    return 'impl:%s' % st.replace(':', '-').lower()


shadow_msgs = []


def judge(ctx, spec, res, stats):
    """classify one form result; report violations"""
    st = res['status']
    stream = spec.get('stream', '?')
    stats['status:' + (st.split(':')[0])] += 1
    rep = {'code': spec['code'], 'stream': stream, 'how': 'exec(code) over `from pyiga.vform import *`; compile.generate(V); '
           'compile.compile_cython_module(src); assemble.instantiate_assembler(cls, kvs, args, None, boundary); '
           'asm.multi_entries / multi_blocks / assemble_vector; harness/impl/c01_driver.py re-creates spaces, geometry and inputs from `seed`'}
    if st == 'Timeout':
        log('[C01] form %s not run: driver timeout' % spec['id'])
        return
    if st.startswith('Reject') or st in ('TooBig', 'Generated'):
        stats['rejected:' + res.get('phase', st)] += 1
        return
    if st.startswith(('BuildFail', 'ImportFail')):
        ctx.report(toolchain_signature(res), 'a form the compiler accepted does not build/load: %s: %s' % (st, res.get('msg')),
                   dict(rep, impl={k: res.get(k) for k in ('status', 'msg', 'funcs')}))
        return
    if st.startswith(('DriverError', 'DriverCrash')):
        ctx.broken.append('driver failed on form %s: %s' % (spec['id'], (res.get('msg') or '')[-300:]))
        ctx.report('impl:driver-crash:' + stream, 'the implementation driver crashed on an accepted form: %s' % (res.get('msg') or '')[-400:],
                   rep, found_input=True)
        return
    stats['built'] += 1
    for inst in res.get('instances', []):
        ist = inst['status']
        stats['inst:' + ist.split(':')[0]] += 1
        if inst.get('orientation') == -1:
            stats['orientation_reversing_instances'] += 1
        key = (spec['code'], inst.get('seed'), json.dumps(inst.get('cfg'), sort_keys=True))
        if inst.get('history_sides'):
            rep = dict(rep, history='assemblies for the sides %s in this order, all through ONE args dict (instantiate_assembler(cls, kvs, shared_args, '
                       'None, side)); the reported entries belong to the last one' % inst['history_sides'])
        if inst.get('cfg'):
            rep = dict(rep, cfg=inst['cfg'])
            stats['two_space_orderings' if 'p0' in inst['cfg'] else 'forced_orientation'] += 1
        if ist.startswith(('InstantiateFail', 'AssembleFail')):
            ctx.count(key, nontrivial=True)
            ctx.report('impl:%s:%s' % (ist.replace(':', '-').lower(), res['header']['boundary'] and 'boundary' or 'volume'),
                       'an accepted, built form cannot be instantiated/assembled: %s: %s' % (ist, inst.get('msg')),
                       dict(rep, seed=inst['seed'], space=inst.get('space'), impl=inst.get('msg')))
            continue
        if ist in ('OracleUnsupported', 'NoGeometry'):
            stats['oracle-unsupported'] += 1
            continue
        if ist.startswith('DriverError'):
            ctx.broken.append('driver error on form %s seed %s: %s' % (spec['id'], inst.get('seed'), (inst.get('msg') or '')[-300:]))
            continue
        if ist == 'ComponentCount':
            ctx.report('impl:component-count', inst['msg'], dict(rep, seed=inst['seed'], space=inst.get('space')))
            continue
        c = inst['cmp']
        ctx.count(key, nontrivial=c['compared_full'] + c['compared_local'] > 0, n=c['entries'])
        for k in ('entries', 'compared_full', 'compared_local', 'undefined', 'zero_support', 'nonlinear'):
            stats[k] += c[k]
        stats['compared_source'] += c.get('compared_source', 0)
        stats['shadow:' + str(inst.get('shadow', 'none')).split(':')[0]] += 1
        if str(inst.get('shadow', '')).startswith('unsupported') and len(shadow_msgs) < 6:
            shadow_msgs.append(inst['shadow'][:160])
        stats['maxratio'] = max(stats.get('maxratio', 0.0), c['maxratio'] if c['maxratio'] != float('inf') else 1e300)
        for inc in inst.get('inconsistent', []):
            ctx.report('impl:inconsistent:' + str(inc[0]), 'two access paths to the same entry disagree: %s' % (inc,),
                       dict(rep, seed=inst['seed'], space=inst.get('space'), impl=inc))
        if c['nfails']:
            f = c['fails'][0]
            hd = res['header']
            cls = '%dd-%s%s%s' % (hd['dim'], 'bilinear' if hd['arity'] == 2 else 'linear', '-vec' if hd['vec'] else '',
                                  '-boundary' if hd['boundary'] else ('-surface' if hd['geo_dim'] != hd['dim'] else ''))
            if f['kind'] == 'source-semantics':
                sig = 'impl:source-semantics:%s' % (spec['id'] if stream in ('shipped', 'corpus') else cls)
                what = ('entry %s (component %d): the expression tree the form was BUILT into denotes %r (the compiled assembler returns %r), but the '
                        'form as written denotes %r by automatic differentiation of its source (|diff| = %.3g > bound %.3g): an operator expansion / '
                        'differentiation rule applied at construction time is wrong' % (f['index'], f['comp'], f['tree_oracle'], f['impl'], f['oracle'],
                                                                                       abs(f['tree_oracle'] - f['oracle']), f['bound']))
            elif f['kind'] == 'nonzero-without-common-support':
                sig = 'impl:nonzero-without-support:' + cls
                what = 'entry %s of basis functions without common support is %r, not 0' % (f['index'], f['impl'])
            else:
                sig = 'impl:entry-mismatch:%s:%s' % (stream if stream in ('shipped', 'corpus') else 'generated', spec['id'] if stream in ('shipped', 'corpus') else cls)
                what = ('entry %s (component %d) is %r, the Gauss-Legendre sum of the integrand is %r (|diff| = %.3g > bound %.3g = 1e-10 * sum|terms|); '
                        '%d of %d entries differ' % (f['index'], f['comp'], f['impl'], f['oracle'], abs(f['impl'] - f['oracle']), f['bound'], c['nfails'], c['entries']))
            ctx.report(sig, what, dict(rep, seed=inst['seed'], space=inst.get('space'), geo=inst.get('geo'), fails=c['fails']))


def run(ctx):
    thorough = ctx.tier == 'thorough'
    rng = ctx.rng
    ctx.obligations_stage(PROPS, extra_targets=['C01/Examples.vo'], gate_dirs=['C06'])
    ctx.obligations_stage('C01/Props2.v', extra_targets=['C01/Examples2.vo'], gate_dirs=['C06'])
    ctx.assumptions += [
        'PARTIAL: layers 2 and 3 (storage layout, index walking, Gauss index range, early return, bbox shift, '
        'assemble_vector order, nqp) are Coq theorems about coq/C01/Model.v; layer 1 is C06; layer 4 (Cython, gcc -O3 '
        '-march=native -ffast-math, libm/libmvec, dlopen) is differential testing against an independent interpreter',
        'model: hand transcription of sym_index_to_seq, storage_size/storage_index/allocate_array/var_ref/gen_assign/'
        'gen_pderiv (codegen/cython.py), from_seq*/next_lexicographic*/intersect_intervals (assemble_tools_cy.pyx), '
        'the generated entry_impl/combine loop structure, mesh_support_idx_all, gauss_rule',
        'entry_is_full_gauss_sum takes the locality of the integrand terms (C02 N_local + (bi)linearity of the form) as hypothesis',
        'symmetric variables in the program model (coq/C01/Kernel3.v, Props2.v): tie = for every generated form and every computed variable '
        'stored in fields[]/constants[] the slots its gen_assign statements assign, in the emitted order, equal the keys of the model\'s [writes] '
        '(symmetric: ofs + sym_index_to_seq over i <= j; otherwise ofs .. ofs+sz-1), compared inside Coq; var_ref of both index orders = slot_ok cases',
        'tie (exact): every layout function is called on synthetic inputs and on every generated form; sizes, offsets, slots, '
        'derivative strides/offsets/axes, support index ranges, nodes per span are compared inside Coq with the model',
        'program model (coq/C01/Kernel.v) <-> generated text: every var_ref slot equals the model slot (exact, in Coq); in the text of '
        'precompute_fields and combine every statement reads only what an earlier statement assigned, __init__ loaded, or a jet/weight/'
        'index/builtin, and nothing is assigned twice (checked on every generated form); the value of the generated `self.nqp = ...` line on '
        'degree lists of both spaces equals the model nqp_spaces (exact, in Coq)',
        'printed code: for sampled emitted expressions the token stream of the generated characters equals [print] of the expression tree '
        '(exact, in Coq; prefix and binary minus are the same character; a negative literal = minus sign + literal; the bracketed product of '
        'gen_pderiv and an indexed reference are single tokens), and an independent C-precedence parser (harness/props/c01.py: c_parse) reads '
        'EVERY printed expression of every generated form back to its tree',
        'instances: the last instance of every form lies on an orientation-reversing geometry (x reflected or two coordinates swapped, '
        'det J < 0), the first on an orientation-preserving one, others random (35% reversed); the boundary normal follows the library\'s '
        'documented convention (outward for det J > 0, hence inward for det J < 0)',
        'operator-precedence stress: two fixed corpus forms and 2 (thorough 30) generated forms per run with divisions by products and '
        'quotients, nested divisions, negative integer powers, unary minus inside products and powers',
        'second oracle (harness/props/c01_shadow.py): the form\'s SOURCE is executed against an independent re-implementation of the vform '
        'API that evaluates 2-jets (automatic differentiation in the parametric coordinates; physical derivatives via a jet of J^-1) at the '
        'Gauss nodes; it shares nothing with vform.py\'s symbolic differentiation/operator expansion, which is applied when a form is BUILT and is '
        'therefore already contained in the forest the first oracle interprets; every entry is compared three ways (compiled, tree oracle, source oracle)',
        'histories: every instance of a boundary form is a SEQUENCE of assemblies, one per side in random order (up to 4), that hand ONE args dict '
        'to instantiate_assembler as a loop over boundary conditions does; each step is compared with the oracle (measure and outer normal of that '
        'side) and bitwise with an assembly from a fresh dict',
        'every quick run assembles two-space (Petrov-Galerkin) forms in 1-D/2-D/3-D on 17 FIXED degree orderings (space-1 degree higher, lower, '
        'equal, mixed per axis; identity and curved geometry) and compares them with the oracle at max-degree-over-both-spaces + 1 nodes per span',
        'cdef helpers (from_seq, next_lexicographic, intersect_intervals) are not callable from Python: they are tied through '
        'entry(i,j) == multi_entries == assembled matrix entry, assemble_vector()[I] == entry1(ravel I) (bitwise) and through the oracle',
        'oracle: harness/props/c01_oracle.py evaluates the UN-finalized forest with numpy (long double) at Gauss nodes computed in the '
        'driver (numpy leggauss), basis jets from bspline.collocation_derivs (C02), geometry jets from grid_eval/grid_jacobian/'
        'grid_hessian (C07); bound 1e-10 * running magnitude (sum of |terms| through every operation)',
        'entries whose oracle value is not finite (sqrt/log of a negative number, division by a basis function) are skipped; the '
        'reference of every entry is the oracle sum over the joint support (what entry_impl is proved to loop over); that it equals '
        'the sum over ALL Gauss nodes is checked numerically per entry (terms outside the support vanish) and counted as '
        'compared_full, entries of forms that are not (bi)linear in the basis functions are counted as nonlinear',
    ]
    stats = collections.Counter()

    # ---- candidate forms --------------------------------------------------------------------------------------
    n_gen = 400 if thorough else 60
    gspecs = gen.gen_specs(rng, n_gen, 0, max(4, n_gen // 10), max_depth=4 if thorough else 3)
    gspecs = [s for s in gspecs if s['stream'] != 'library']
    for k, s in enumerate(gspecs):
        s['id'] = 'g%04d' % k
    pspecs = [precedence_form(rng, k) for k in range(40 if thorough else 6)]
    corpus = [{'id': name, 'code': code, 'stream': 'corpus'} for name, code in CORPUS]
    shipped = [{'id': 'shipped%02d' % k, 'code': c, 'stream': 'shipped'} for k, c in enumerate(SHIPPED)]
    pgforms = [{'id': name, 'code': code, 'stream': 'corpus', 'seeds': [],
                'configs': [{'seed': rng.randrange(10 ** 6), 'p0': p0, 'p1': p1, 'geo': geo, 'orient': (-1 if k % 2 else 1)}
                            for k, (p0, p1, geo) in enumerate(cfgs)]}
               for name, code, cfgs in PG_FORMS]

    # ---- layers 2/3: exact tie ------------------------------------------------------------------------------------
    lay_forms = corpus + pgforms + shipped + gspecs + pspecs
    payload = gen_layout_payload(ctx, [{'id': s['id'], 'code': s['code']} for s in lay_forms])
    t0 = time.time()
    lout = ctx.impl.run(DRIVER, payload, timeout=1500)
    log('[C01] layout driver: %d forms in %.0fs' % (len(lay_forms), time.time() - t0))
    cases = layout_cases(payload, lout)
    accepted = []
    print_cases = []
    for spec, r in zip(lay_forms, lout['forms']):
        if r['status'] != 'Ok':
            stats['layout-rejected'] += 1
            continue
        accepted.append(spec)
        cases += form_layout_cases(spec, r)
        bad = check_form_layout_on_impl(spec, r)
        ctx.count(('layout', spec['code']), nontrivial=True)
        if bad:
            ctx.report('impl:layout:' + bad[0], bad[1], {'code': spec['code'], 'how': 'AsmGenerator(V, ...).generate(); var_ref / generated text',
                                                        'impl': {k: r[k] for k in ('arrays', 'kernel_reads', 'pre_writes', 'loads')}})
        for txt, sk in r.get('printed', []):
            if len(txt) <= 500 and len(print_cases) < (400 if thorough else 120):
                pc = coq_print_case(txt, sk)
                if pc is not None:
                    print_cases.append(('form %s: print' % spec['id'], pc, {'code': spec['code'], 'printed': txt}))
        pb = check_printed(r.get('printed', []))
        stats['printed_expressions'] += len(r.get('printed', []))
        if pb:
            ctx.report('impl:printed-code:precedence', '%s: %s' % (pb[1], pb[0][:300]),
                       {'code': spec['code'], 'how': 'AsmGenerator(V, ...).generate(); gen.gencode(expr) for every emitted scalar expression',
                        'printed': pb[0][:2000]})
    files, chunks = [], []
    CH = 300
    for n, i in enumerate(range(0, len(cases), CH)):
        chunk = cases[i:i + CH]
        chunks.append(chunk)
        body = HEADER + 'Definition cases : list (nat * bool) := [\n' + ';\n'.join('(%d, %s)' % (k, c[1]) for k, c in enumerate(chunk)) + '].\n'
        body += 'Eval vm_compute in bad cases.\n'
        files.append(('C01_layout_%03d' % n, body))
    ndis = 0
    # self-test of the comparison (same run, same definitions): a perturbed expectation must be flagged
    selftest = ('C01_selftest', HEADER + 'Definition cases : list (nat * bool) := [(0, sym_ok 3 [[0;1;2];[1;3;4];[2;4;5]]); '
                '(1, sym_ok 3 [[0;1;2];[1;3;4];[2;5;4]]); (2, pd_ok 2 1 [1;0] [(0,2,0);(1,2,1)]); (3, pd_ok 2 1 [1;0] [(0,2,1);(1,2,0)]); (4, symw_ok 2 4 [4;5;6]); (5, symw_ok 2 4 [4;5;5;6]); (6, roww_ok 3 2 [2;3;4]); (7, roww_ok 3 2 [2;4;3])].\n'
                'Eval vm_compute in bad cases.\n')
    # the Coq printer against the generated characters (token streams compared inside Coq)
    pfiles, pchunks = [], []
    for n, i in enumerate(range(0, len(print_cases), 150)):
        chunk = print_cases[i:i + 150]
        pchunks.append(chunk)
        pfiles.append(('C01_print_%03d' % n, PRINT_HEADER + 'Open Scope string_scope.\nDefinition cases : list (nat * bool) := [\n'
                       + ';\n'.join('(%d%%nat, %s)' % (k, c[1]) for k, c in enumerate(chunk)) + '].\nEval vm_compute in bad cases.\n'))
    pself = ('C01_print_selftest', PRINT_HEADER + 'Open Scope string_scope.\nDefinition cases : list (nat * bool) := ['
             '(0%nat, print_ok (COp nat ODiv (CRead nat (LField 0)) (COp nat OMul (CRead nat (LField 1)) (CConst nat 2))) '
             '[TLP nat; TLoc nat (LField 0); TOp nat ODiv; TLP nat; TLoc nat (LField 1); TOp nat OMul; TNum nat 2; TRP nat; TRP nat]); '
             '(1%nat, print_ok (COp nat ODiv (CRead nat (LField 0)) (COp nat OMul (CRead nat (LField 1)) (CConst nat 2))) '
             '[TLP nat; TLoc nat (LField 0); TOp nat ODiv; TLoc nat (LField 1); TOp nat OMul; TNum nat 2; TRP nat])].\n'
             'Eval vm_compute in bad cases.\n')
    evald_all = ctx.coq_eval_many(files + pfiles + [pself, selftest])
    evald = evald_all[:len(files)] + [evald_all[-1]]
    pevald = evald_all[len(files):len(files) + len(pfiles)]
    (_, psok, psout) = evald_all[-2]
    ctx.obligations += 1
    if psok and parse_coq_list_of_nat(psout) == [1]:
        ctx.discharged += 1
    else:
        ctx.broken.append('harness self-test C01_print_selftest: a token stream without the inner brackets was not flagged (%s)' % psout[-300:])
    for (name, ok, out), chunk in zip(pevald, pchunks):
        ctx.obligations += 1
        badidx = parse_coq_list_of_nat(out) if ok else None
        if not ok or badidx is None:
            ctx.broken.append('case file %s did not evaluate: %s' % (name, out[-600:]))
            continue
        ctx.discharged += 1
        for b in badidx[:3]:
            desc, _, rep = chunk[b]
            ctx.broken.append('printer tie: the generated characters are not the token stream of the proved printer (%s)' % desc)
            ctx.report('tie:printed-code:tokens', 'gencode_* prints %r, which is not the token stream of the printer model (coq/C01/Printer.v) for that '
                       'expression tree; printed_code_parses_back no longer speaks about this code' % rep['printed'][:300], rep, found_input=True)
    ctx.cov['print_cases'] = len(print_cases)
    (_, sok, sout) = evald[-1]
    ctx.obligations += 1
    if sok and parse_coq_list_of_nat(sout) == [1, 3, 5, 7]:
        ctx.discharged += 1
    else:
        ctx.broken.append('harness self-test C01_selftest: perturbed layout cases were not flagged exactly (%s)' % sout[-300:])
    for (name, ok, out), chunk in zip(evald[:-1], chunks):
        ctx.obligations += 1
        badidx = parse_coq_list_of_nat(out) if ok else None
        if not ok or badidx is None:
            ctx.broken.append('case file %s did not evaluate: %s' % (name, out[-600:]))
            continue
        ctx.discharged += 1
        for b in badidx:
            ndis += 1
            desc, _, rep = chunk[b]
            ctx.broken.append('layout tie: model and implementation differ on %s' % desc)
            ctx.report('tie:layout:' + desc.split(':')[-1].strip().split(' ')[0].split('/')[0],
                       'the code generator\'s layout differs from the proved model (%s); the layout theorems no longer speak about this code' % desc,
                       rep, found_input=True)
    ctx.checker_cmds.append('cd coq && coqc -R . Verif gen/C01_layout_*.v')
    ctx.cov['layout_cases'] = len(cases)
    ctx.cov['disagreements_checked'] = ndis
    for c in cases:
        ctx.count(('lay', c[1]), nontrivial=True)
    # nodes of make_iterated_quadrature: exactly nqp per span, in span order; weights sum to the length
    for (p, kn, q), r in zip(payload['kvs'], lout['kvs']):
        exp = [k // q for k in range(q * r['nspans'])]
        if r['node_span'] != exp or abs(r['wsum'] - r['len']) > 1e-13 * max(1.0, abs(r['len'])):
            ctx.report('impl:quadrature:nodes-per-span', 'make_iterated_quadrature does not put %d nodes into every span / weights do not sum to the length' % q,
                       {'p': p, 'knots': kn, 'nqp': q, 'impl': r})
    log('[C01] layout tie: %d exact cases, %d disagreements (t=%.0fs)' % (len(cases), ndis, time.time() - ctx.t0))

    # ---- layer 4 --------------------------------------------------------------------------------------------------
    xdg = xdg_dir(ctx)
    acc_ids = {s['id'] for s in accepted}
    n_sh = 6 if thorough else 2
    n_inst = 3 if thorough else 2
    def instances(s, n):
        # the last instance of every form is forced onto an ORIENTATION-REVERSING geometry (det J < 0), the first onto an
        # orientation-preserving one; the others draw the orientation at random
        s['seeds'] = [rng.randrange(10 ** 6) for _ in range(max(0, n - 2))]
        s['configs'] = [{'seed': rng.randrange(10 ** 6), 'orient': 1}, {'seed': rng.randrange(10 ** 6), 'orient': -1}][:max(1, n)][-n:]
    for s in shipped:
        instances(s, n_sh)
    for s in corpus:
        instances(s, n_inst)
    # freshly generated forms: accepted by the generator pass above, not huge
    fresh_pool = [s for s in gspecs if s['id'] in acc_ids and s['stream'] == 'grammar']
    n_fresh = 60 if thorough else 2
    n_fresh = int(os.environ.get('VERIF_C01_FRESH', n_fresh))      # development aid only
    fresh = fresh_pool[:n_fresh]
    n_prec = 30 if thorough else 2
    n_prec = int(os.environ.get('VERIF_C01_PREC', n_prec))      # development aid only
    fresh = fresh + [s for s in pspecs if s['id'] in acc_ids][:n_prec]
    for s in fresh:
        instances(s, n_inst)
    t0 = time.time()
    todo = shipped + corpus + pgforms + fresh
    cres = run_asm(ctx, todo, xdg, timeout=6000 if thorough else 3000)
    for s, r in zip(todo, cres):
        if s['stream'] == 'shipped' and r['status'] == 'Ok' and not r.get('shipped'):
            ctx.broken.append('%s is not served by a shipped assembler of pyiga.assemblers' % s['code'])
        judge(ctx, s, r, stats)
    tb = [r.get('t_build', 0) for r in cres if not r.get('shipped')]
    log('[C01] %d shipped x %d instances, %d corpus + %d fresh compiled forms x %d instances, %d two-space forms on %d fixed degree orderings in %.0fs (build times %s)' % (
        len(shipped), n_sh, len(corpus), len(fresh), n_inst, len(pgforms), sum(len(s['configs']) for s in pgforms), time.time() - t0, tb))
    # harness self-test of the oracle comparison: the implementation's values scaled by (1 + 1e-7) must be flagged
    st = dict(shipped[0], id='selftest', seeds=[1])
    sr = run_asm(ctx, [st], xdg, extra={'selftest_scale': 1e-7})[0]
    ctx.obligations += 1
    if sr['status'] == 'Ok' and sr['instances'] and sr['instances'][0].get('cmp', {}).get('nfails', 0) > 0:
        ctx.discharged += 1
    else:
        ctx.broken.append('harness self-test: a relative perturbation of 1e-7 of the mass matrix was not flagged by the oracle comparison')

    ctx.cov['traces_validated_against_impl'] = stats['inst:Ok']
    ctx.cov['forms'] = {'shipped': len(shipped), 'corpus': len(corpus), 'two_space': len(pgforms), 'fresh_compiled': len(fresh), 'generated_for_layout': len(gspecs),
                        'accepted_by_generator': len(accepted)}
    ctx.cov['stats'] = dict(stats)
    ctx.cov['source_oracle_unsupported_samples'] = list(shadow_msgs)
    ctx.cov['rounding_bound'] = '1e-10 * running magnitude of the evaluation (sum over the joint-support nodes), + 1e-300'
    ctx.cov['largest_observed_error_over_bound'] = stats.get('maxratio', 0.0)
    ctx.cov['rule'] = ('layout: one case per (function, input) compared exactly inside Coq; layer 4: evaluations = assembled entries '
                       '(components counted) compared with the oracle; distinct = (form code, instance seed); non-trivial = at least one '
                       'entry with common support and finite oracle value')
    ctx.cov['input_distribution'] = {'dims': '1-3', 'degrees': '1-3 mixed per axis', 'spans': '1-3 per axis, interior knots k/8 with multiplicity 1..p',
                                     'domains': '[a,b], a in {0,-1,0.5}, length in {1,2,0.5}', 'geometry': 'B-spline (60%) / NURBS (40%) perturbed affine maps, det J > 0.2',
                                     'fields': 'quadratic B-spline fields 1.5 +- 0.25, polynomial physical fields', 'params': 'k/8, 1 <= k <= 12 (+2I for matrices)'}
    ctx.cov['exhaustive'] = False
    ctx.cov['partial'] = ['layer 4 (compiled kernel = emitted arithmetic; build/load on the platform) is tested, not proved']
    for s, r in list(zip(todo, cres))[len(shipped):len(shipped) + 2]:
        ctx.sample({'id': s['id'], 'status': r['status'], 'instances': [{k: i.get(k) for k in ('seed', 'status', 'cmp')} for i in r.get('instances', [])][:1]})
    return ctx.finish()


def replay(ctx, data):
    rep = data.get('replay', {})
    spec = {'id': 'replay', 'code': rep['code'], 'stream': rep.get('stream', 'replay'), 'seeds': [rep.get('seed', 1)]}
    if rep.get('cfg'):
        spec['seeds'], spec['configs'] = [], [rep['cfg']]
    xdg = xdg_dir(ctx)
    stats = collections.Counter()
    r = run_asm(ctx, [spec], xdg)[0]
    log(json.dumps(r, indent=1)[:3000])
    judge(ctx, spec, r, stats)
    return ctx.finish()


META = {
    'technique': 'Rocq proofs about the code generator\'s storage layout and the quadrature loop structure (bijections, disjointness, '
                 'support-intersection sum = full Gauss sum under locality, bbox shift, lexicographic order), exact tie of every layout function '
                 'to pyiga/codegen/cython.py, and differential execution of compiled assemblers against an independent interpreter of the form',
    'level_text': 'PARTIAL. Proved in Coq (unbounded): sym_index_to_seq is a symmetric bijection of the upper triangle onto range(n(n+1)/2) and '
                  'gen_assign writes exactly that triangle (sym_index_bijection, gen_assign_entries); row-major storage_index/from_seq are mutually '
                  'inverse bijections for every shape (row_major_bijection); allocate_array gives disjoint in-range blocks and two var_ref references hit '
                  'the same slot only for the same variable entry (layout_disjoint, layout_inside, storage_index_in_block, reader_writer_agree); the '
                  'gen_pderiv factor of axis k reads the D[dim-1-k]-th derivative at node g_sta+i_k (pderiv_lookup_spec, pderiv_lookup_in_bounds); the entry '
                  'loop over the support intersection equals the sum over all Gauss nodes for any number of axes given locality of the terms '
                  '(entry_is_full_gauss_sum), is zero for disjoint supports (disjoint_support_zero) and is invariant under the bounding-box shift of '
                  'on-demand assemblers (bbox_shift_invariant); next_lexicographic walks row-major order and assemble_vector writes entry I at ravel(I) '
                  '(next_lexicographic_step, assemble_vector_order); nqp = max degree + 1 over the knot vectors of BOTH spaces (nqp_is_maxdeg_plus_1, '
                  'nqp_covers_both_spaces); mapped Gauss weights sum to the span length (gauss_rule_weights). Layer 4 inside the model (coq/C01/Kernel.v, '
                  'built on the C06 evaluator): the MODEL of the emitted kernel -- gen_assign assignments of the kernel variables in the emitted order '
                  'through an injective slot layout, then r += code(e) -- computes at every Gauss node the C06 value of the scheduled forest '
                  '(kernel_denotes_integrand, kernel_body_accumulates), hence the entry is the Gauss sum over the joint support of that value and, under '
                  'locality, over all Gauss nodes (entry_denotes_gauss_sum, entry_denotes_full_gauss_sum); for any field, any number of axes, any well-formed '
                  'schedule. Two phases (coq/C01/Kernel2.v): running the precomputable definitions without basis-function jets, keeping only '
                  'fields[]/constants[], then the kernel definitions per entry from a store that is arbitrary on locals, gives the C06 value of the whole '
                  'forest pre ++ ker (precompute_then_kernel_equals_forest). Symmetric variables: writing the upper triangle through sym_index_to_seq makes '
                  'every read (i,j)/(j,i) return the expression entry when the expression is symmetric, nothing outside the block is touched '
                  '(symmetric_storage_sound); symmetric variables as a case of the program model (coq/C01/Kernel3.v: var_ref through storage_index, gen_assign '
                  'writing only i <= j, layout injective on stored slots only): under the promise that the defining expression is symmetric at the node the '
                  'kernel code and the two-phase program compute the C06 value of forests WITH symmetric variables (kernel_denotes_integrand_sym, '
                  'gen_assign_sym_establishes_binding, precompute_then_kernel_equals_forest_sym; Examples2.v: the promise cannot be dropped). Vector kernels: r[k] += ... and the loops are componentwise the scalar ones, so the Gauss-sum theorem holds per '
                  'component block (kernel_body_accumulates_components, vector_loop_is_componentwise, entry_denotes_gauss_sum_component). Concrete syntax (coq/C01/Printer.v): the token '
                  'stream gencode_* prints (every binary node bracketed, prefix minus, f(...)) parses back, with the operator precedence of C, to the tree '
                  'it was printed from, for every tree (printed_code_parses_back). Front end = C06. Tied to /repo on every run by exact comparison (inside Coq) of sizes, offsets, slots, derivative '
                  'strides/offsets, support ranges on synthetic inputs and on every generated form. NOT proved: that Cython/gcc -O3 -ffast-math/libm compute the '
                  'emitted arithmetic and that modules build and load; this is tested: shipped assemblers, a fixed corpus of 11 custom forms and freshly '
                  'generated forms are built, loaded and every sampled entry compared with an independent interpreter of the un-finalized form '
                  '(bound 1e-10 * sum|terms|).',
    'level_note': 'Trusted: Coq kernel + vm_compute; hand transcription of the layout/loop functions into Gallina (validated exactly each run); the oracle '
                  '(numpy long double, independent definitions of physical derivatives, measures, normals), C02 basis jets and C07 geometry jets as oracle '
                  'inputs; cdef helpers tied only through observable entries. Locality of B-splines is a hypothesis here (C02 N_local).',
}
