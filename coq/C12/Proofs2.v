(* C12 -- lemmas of the last round: y' = M^-1 c is integrated exactly by every consistent
   tableau (all code paths of dirk_step, and rosenbrock_step), and the drivers with states. *)
From Coq Require Import QArith Qabs Qround List Bool Arith ZArith Lia Lqa Ring.
From Verif.C12 Require Import Model Proofs Model2.
Import ListNotations.

Lemma last_in {A} (l : list A) (d : A) : l <> [] -> In (last l d) l.
Proof.
  induction l as [|a l IH]; intros H; [congruence|].
  destruct l as [|b l']; [left; reflexivity|]. right. apply IH. discriminate.
Qed.

Lemma firstn_S_nth {A} (d : A) : forall (l : list A) (i : nat),
  length l = S i -> l = firstn i l ++ [nth i l d].
Proof.
  induction l as [|h t IH]; intros i H; simpl in *; [lia|].
  destruct i; simpl.
  - destruct t; [reflexivity|discriminate].
  - f_equal. apply IH. lia.
Qed.

Lemma adaptive_loop_cons t_end st e evs : Qle_bool t_end (a_t st) = false ->
  adaptive_loop t_end st (e :: evs) = adaptive_loop t_end (astep st e) evs.
Proof. intros H. simpl. rewrite H. reflexivity. Qed.
Lemma adaptive_taus_cons t_end st e evs : Qle_bool t_end (a_t st) = false ->
  adaptive_taus t_end st (e :: evs) = a_tau st :: adaptive_taus t_end (astep st e) evs.
Proof. intros H. simpl. rewrite H. reflexivity. Qed.

Section ConstRhs.
  Variable R : Type.
  Variables (rO rI : R) (radd rmul rsub : R -> R -> R) (ropp : R -> R).
  Hypothesis Rth : ring_theory rO rI radd rmul rsub ropp eq.
  Add Ring Rring2 : Rth.
  Variable isz : R -> bool.
  Variables (M F Minv : R -> R) (solve : R -> R -> R -> R * R).
  Variables (x tau : R) (Fx : option R).
  Notation "a + b" := (radd a b).
  Notation "a * b" := (rmul a b).
  Notation "a - b" := (rsub a b).
  Notation lin := (lin R rO radd rmul).
  Notation rsum := (fold_right radd rO).
  Notation dirk_step := (dirk_step R rO radd rmul rsub isz M F Minv solve x tau Fx).

  Hypothesis isz_spec : forall a, isz a = true -> a = rO.
  Hypothesis solve_Fz : forall c rhs x0, snd (solve c rhs x0) = F (fst (solve c rhs x0)).
  Hypothesis Fx_ok : forall f, Fx = Some f -> f = F x.
  Hypothesis Minv_ok : forall v, M (Minv v) = v.

  (* stiffly accurate shortcut, constant right-hand side *)
  Lemma dirk_const_rhs_sa_l : forall (c : R) A b bhat xn xe Fxn ys Fy rs,
    (forall z, F z = c) -> A <> [] -> b = last A [] -> length b = length A ->
    dirk_step A b bhat true = Some (xn, xe, Fxn, (ys, Fy, rs)) ->
    M xn = M x + tau * (rsum b * c) + last rs rO.
  Proof.
    intros c A b bhat xn xe Fxn ys Fy rs Hc HA Hb Hl H.
    pose proof (dirk_stage_equations_l R rO rI radd rmul rsub ropp Rth isz M F Minv solve x tau Fx
                  isz_spec solve_Fz Fx_ok _ _ _ _ _ _ _ _ _ _ H) as (Hly & _).
    destruct (dirk_sa_l R rO rI radd rmul rsub ropp Rth isz M F Minv solve x tau Fx
                isz_spec solve_Fz Fx_ok _ _ _ _ _ _ _ _ _ HA Hb H) as [E _].
    rewrite E.
    replace (map F ys) with (map (fun _ : R => c) ys) by (apply map_ext; intros; symmetry; apply Hc).
    rewrite (lin_const R rO rI radd rmul rsub ropp Rth c b ys) by congruence. reflexivity.
  Qed.

  (* every code path: a consistent tableau (sum b = 1) with exact stage solves integrates
     y' = M^-1 c exactly: M x_new = M x + tau c *)
  Lemma dirk_const_rhs_exact_l : forall (c : R) A b bhat is_sa xn xe Fxn ys Fy rs,
    (forall z, F z = c) -> length b = length A -> rsum b = rI ->
    (is_sa = true -> A <> [] /\ b = last A []) ->
    (forall r, In r rs -> r = rO) ->
    dirk_step A b bhat is_sa = Some (xn, xe, Fxn, (ys, Fy, rs)) ->
    M xn = M x + tau * c.
  Proof.
    intros c A b bhat is_sa xn xe Fxn ys Fy rs Hc Hl Hs Hsa Hres H.
    destruct is_sa.
    - destruct (Hsa eq_refl) as [HA Hb].
      rewrite (dirk_const_rhs_sa_l c A b bhat xn xe Fxn ys Fy rs Hc HA Hb Hl H).
      pose proof (dirk_stage_equations_l R rO rI radd rmul rsub ropp Rth isz M F Minv solve x tau Fx
                    isz_spec solve_Fz Fx_ok _ _ _ _ _ _ _ _ _ _ H) as (_ & Hlr & _).
      assert (Hlast : last rs rO = rO).
      { destruct rs as [|r0 rs']; [reflexivity|]. apply Hres. apply last_in. discriminate. }
      rewrite Hlast, Hs. ring.
    - rewrite (dirk_const_rhs_l R rO rI radd rmul rsub ropp Rth isz M F Minv solve x tau Fx
                 isz_spec solve_Fz Fx_ok Minv_ok c A b bhat xn xe Fxn ys Fy rs Hc Hl H).
      rewrite Hs. ring.
  Qed.
End ConstRhs.

Section RosConstRhs.
  Variable R : Type.
  Variables (rO rI : R) (radd rmul rsub : R -> R -> R) (ropp : R -> R).
  Hypothesis Rth : ring_theory rO rI radd rmul rsub ropp eq.
  Add Ring Rring3 : Rth.
  Variables (M F : R -> R) (x tau : R) (Jx Cinv : R -> R) (gam : R).
  Notation "a + b" := (radd a b).
  Notation "a * b" := (rmul a b).
  Notation "a - b" := (rsub a b).
  Notation lin := (lin R rO radd rmul).
  Notation rsum := (fold_right radd rO).
  Notation ros_step := (ros_step R rO radd rmul F x tau Jx Cinv).

  Hypothesis Cinv_ok : forall v, M (Cinv v) - (tau * gam) * Jx (Cinv v) = v.
  (* the mass matrix acts linearly: additive, and homogeneous for the scalars that occur *)
  Hypothesis M_add : forall u v, M (u + v) = M u + M v.

  Lemma M_zero : M rO = rO.
  Proof.
    pose proof (M_add rO rO) as H. replace (rO + rO) with rO in H by ring.
    assert (E : M rO - M rO = (M rO + M rO) - M rO) by (rewrite <- H; reflexivity).
    replace (M rO - M rO) with rO in E by ring.
    replace (M rO + M rO - M rO) with (M rO) in E by ring. symmetry. exact E.
  Qed.

  Lemma M_lin_comb : forall (b ks : list R),
    (forall c v, In c b -> M (c * v) = c * M v) ->
    M (lin b ks) = lin b (map M ks).
  Proof.
    unfold Model.lin. induction b as [|h b IH]; intros ks Hs; simpl.
    - apply M_zero.
    - destruct ks as [|k ks]; simpl; [apply M_zero|].
      rewrite M_add, Hs by (left; reflexivity). rewrite IH; [reflexivity|].
      intros c v Hc. apply Hs. right. exact Hc.
  Qed.

  Lemma lin_all_const (c : R) : forall (b vs : list R),
    length b = length vs -> (forall i, i < length vs -> nth i vs rO = c) -> lin b vs = rsum b * c.
  Proof.
    unfold Model.lin. induction b as [|h b IH]; intros [|v vs] Hl Hv; simpl in *; try discriminate; try ring.
    rewrite IH; [|lia|intros i Hi; apply (Hv (S i)); lia].
    rewrite (Hv 0%nat) by lia. ring.
  Qed.

  (* y' = M^-1 c (J = 0): M x_new = M x + tau (sum b) c, and likewise for the embedded weights *)
  Lemma ros_const_rhs_update_l : forall (c : R) A G b bhat xn xe ks,
    length A = length G -> length b = length A ->
    (forall v, M (tau * v) = tau * M v) ->
    (forall s v, In s b -> M (s * v) = s * M v) ->
    ros_step A G b bhat = (xn, xe, ks) ->
    (forall z, Jx z = rO) -> (forall z, F z = c) ->
    M xn = M x + tau * (rsum b * c).
  Proof.
    intros c A G b bhat xn xe ks HAG Hb Mtau Mb H HJ HF.
    destruct (ros_const_rhs_l R rO rI radd rmul rsub ropp Rth M F x tau Jx Cinv gam Cinv_ok
                c A G b bhat xn xe ks HAG Hb H HJ HF) as [Hk Hx].
    destruct (ros_stage_equations_l R rO rI radd rmul rsub ropp Rth M F x tau Jx Cinv gam Cinv_ok
                A G b bhat xn xe ks HAG H) as (Hl & _).
    rewrite Hx, M_add, Mtau, (M_lin_comb b ks Mb).
    rewrite (lin_all_const c b (map M ks)).
    - reflexivity.
    - rewrite map_length. congruence.
    - intros i Hi. rewrite map_length in Hi.
      rewrite (nth_indep _ rO (M rO)) by (rewrite map_length; exact Hi).
      rewrite map_nth. apply Hk. exact Hi.
  Qed.

  Lemma ros_const_rhs_exact_l : forall (c : R) A G b bhat xn xe ks,
    length A = length G -> length b = length A -> rsum b = rI ->
    (forall v, M (tau * v) = tau * M v) ->
    (forall s v, In s b -> M (s * v) = s * M v) ->
    ros_step A G b bhat = (xn, xe, ks) ->
    (forall z, Jx z = rO) -> (forall z, F z = c) ->
    M xn = M x + tau * c.
  Proof.
    intros c A G b bhat xn xe ks HAG Hb Hs Mtau Mb H HJ HF.
    rewrite (ros_const_rhs_update_l c A G b bhat xn xe ks HAG Hb Mtau Mb H HJ HF), Hs. ring.
  Qed.
End RosConstRhs.

(* ------------------------------------------------------------------ *)
(* drivers with states                                                  *)
(* ------------------------------------------------------------------ *)
Section DriverStateProofs.
  Variables X FX : Type.
  Variable stepper : X -> Q -> option FX -> sres X FX.
  Variable Fof : X -> FX.                       (* x |-> F(x) *)

  Notation Fx_inv := (Fx_inv X FX Fof).
  Notation call_ok := (call_ok X FX Fof).
  Notation stepper_ok := (stepper_ok X FX stepper Fof).

  Lemma Fx_inv_none x : Fx_inv x None.
  Proof. intros f H; discriminate. Qed.

  Lemma Fx_inv_step x tau Fx xn xh Fxn :
    stepper_ok -> Fx_inv x Fx -> stepper x tau Fx = SDone xn xh Fxn -> Fx_inv xn Fxn.
  Proof. intros Hs Hi E f Hf. subst Fxn. eapply Hs; eauto. Qed.

  Notation crun := (crun X FX stepper).

  (* ---- constant-step driver ---- *)
  Section Const.
    Variables (G : Type) (gadd : G -> G -> G) (phi : X -> G) (d : G).
    Notation step_adds := (step_adds X FX stepper Fof G gadd phi d).

    Definition cinv (x0 : X) (t0 tau : Q) (i : nat) (x : X) (Fx : option FX)
               (times : list Q) (sols : list X) (calls : list (call X FX)) : Prop :=
      Fx_inv x Fx /\ length times = S i /\ length sols = S i /\ nth i sols x0 = x /\ length calls = i /\
      Forall call_ok calls /\ Forall (fun c => snd (fst c) = tau) calls /\
      map (fun c => fst (fst c)) calls = firstn i sols /\
      nth 0 times 0%Q = t0 /\
      (forall k, 1 <= k <= i -> nth k times 0%Q = (t0 + inject_Z (Z.of_nat k) * tau)%Q) /\
      (step_adds -> forall k, k <= i -> phi (nth k sols x0) = Nat.iter k (fun u => gadd u d) (phi x0)).

    Notation cpost := (cpost X FX stepper Fof G gadd phi d).

    Lemma crun_inv : stepper_ok -> forall n i x0 t0 tau x Fx times sols calls times' sols' calls',
      cinv x0 t0 tau i x Fx times sols calls ->
      crun n i t0 tau x Fx times sols calls = (times', sols', calls') ->
      cpost x0 t0 tau (i + n) times' sols' calls'.
    Proof.
      intros Hok. induction n as [|n IH]; intros i x0 t0 tau x Fx times sols calls times' sols' calls' Hinv H; simpl in H.
      - inversion H; subst.
        destruct Hinv as (I1 & I2 & I3 & I4 & I5 & I6 & I7 & I8 & I9 & I10 & I11).
        unfold cpost. rewrite I2, I3, I5.
        split; [reflexivity|]. split; [lia|]. split; [assumption|]. split; [assumption|]. split; [assumption|].
        split; [left; lia|]. split; [assumption|].
        split; [intros k Hk; apply I10; lia|]. intros Ha k Hk. apply I11; [exact Ha|lia].
      - destruct Hinv as (I1 & I2 & I3 & I4 & I5 & I6 & I7 & I8 & I9 & I10 & I11).
        unfold call in *.
        assert (Hsplit : sols = firstn i sols ++ [x]).
        { rewrite <- I4. apply firstn_S_nth. exact I3. }
        destruct (stepper x tau Fx) as [|xn xh Fxn] eqn:E.
        + inversion H; subst times' sols' calls'. clear H.
          unfold cpost. rewrite I2, I3, app_length, I5. simpl.
          split; [reflexivity|]. split; [lia|].
          split; [apply Forall_app; split; [assumption|constructor; [exact I1|constructor]]|].
          split; [apply Forall_app; split; [assumption|constructor; [reflexivity|constructor]]|].
          split.
          { rewrite map_app, I8. simpl. replace (i + 1) with (S i) by lia.
            rewrite <- I3. rewrite firstn_all. symmetry. exact Hsplit. }
          split.
          { right. split; [lia|]. exists (x, tau, Fx). split; [apply last_snoc|].
            split; [apply in_or_app; right; left; reflexivity|]. exact E. }
          split; [assumption|].
          split; [intros k Hk; apply I10; lia|]. intros Ha k Hk. apply I11; [exact Ha|lia].
        + replace (i + S n) with (S i + n) by lia.
          apply (IH (S i) x0 t0 tau xn Fxn _ _ _ _ _ _) in H; [exact H|].
          unfold cinv. rewrite !app_length. simpl.
          split; [eapply Fx_inv_step; eauto|]. split; [lia|]. split; [lia|].
          split; [rewrite app_nth2 by lia; replace (S i - length sols) with 0 by lia; reflexivity|].
          split; [lia|].
          split; [apply Forall_app; split; [assumption|constructor; [exact I1|constructor]]|].
          split; [apply Forall_app; split; [assumption|constructor; [reflexivity|constructor]]|].
          split.
          { change (map (fun c : X * Q * option FX => fst (fst c)) (calls ++ [(x, tau, Fx)]) = firstn (S i) (sols ++ [xn])).
            rewrite map_app, I8. simpl map. rewrite firstn_app. rewrite I3. replace (S i - S i) with 0 by lia.
            rewrite firstn_O, app_nil_r. rewrite <- I3. rewrite firstn_all. symmetry. exact Hsplit. }
          split; [destruct times; simpl in *; [lia|exact I9]|].
          split.
          { intros k Hk. destruct (Nat.eq_dec k (S i)) as [->|Hne].
            - rewrite app_nth2 by lia. replace (S i - length times) with 0 by lia. reflexivity.
            - rewrite app_nth1 by lia. apply I10. lia. }
          { intros Hadd k Hk. destruct (Nat.eq_dec k (S i)) as [->|Hne].
            - rewrite app_nth2 by lia. replace (S i - length sols) with 0 by lia. simpl nth.
              simpl Nat.iter. rewrite <- (I11 Hadd i) by lia. rewrite I4.
              eapply Hadd; eauto.
            - rewrite app_nth1 by lia. apply I11; [exact Hadd|lia]. }
    Qed.

    Lemma const_run_l : stepper_ok -> forall t0 tau quot x0 times sols calls,
      const_run X FX stepper t0 tau quot x0 = (times, sols, calls) ->
      cpost x0 t0 tau (const_num_iter quot) times sols calls.
    Proof.
      intros Hok t0 tau quot x0 times sols calls H. unfold const_run in H.
      apply (crun_inv Hok _ 0 x0) in H; [exact H|].
      unfold cinv; simpl. split; [apply Fx_inv_none|]. repeat (split; [reflexivity || constructor|]).
      split; [intros k Hk; lia|]. intros _ k Hk. assert (k = 0) by lia. subst. reflexivity.
    Qed.
  End Const.

  (* ---- adaptive driver ---- *)
  Variable ratio : X -> X -> X -> Q.
  Variable powf : Q -> Q.
  Notation arun := (arun X FX stepper ratio powf).

  Definition acall_ok (sols : list X) (c : call X FX) : Prop := call_ok c /\ In (fst (fst c)) sols.

  Lemma acall_ok_mono sols xn calls : Forall (acall_ok sols) calls -> Forall (acall_ok (sols ++ [xn])) calls.
  Proof.
    apply Forall_impl. intros c [H1 H2]. split; [exact H1|]. apply in_or_app. left. exact H2.
  Qed.

  (* every call of the stepper receives the current state (the last accepted solution) together
     with a cached value that is None or F(that state) -- also after rejected and failed attempts *)
  Lemma arun_inv : stepper_ok -> forall fuel t_end t tau x Fx times sols calls evs times' sols' calls' evs',
    Fx_inv x Fx -> length times = length sols -> last sols x = x -> sols <> [] ->
    Forall (acall_ok sols) calls ->
    arun fuel t_end t tau x Fx times sols calls evs = Some (times', sols', calls', evs') ->
    length times' = length sols' /\ Forall (acall_ok sols') calls' /\ (length evs' + length calls = length evs + length calls')%nat.
  Proof.
    intros Hok. induction fuel as [|fuel IH]; intros t_end t tau x Fx times sols calls evs times' sols' calls' evs' I1 I2 I3 I4 I5 H;
      simpl in H.
    - destruct (Qle_bool t_end t); [|discriminate]. inversion H; subst. split; [assumption|]. split; [assumption|lia].
    - destruct (Qle_bool t_end t).
      { inversion H; subst. split; [assumption|]. split; [assumption|lia]. }
      assert (Hc : acall_ok sols (x, tau, Fx)).
      { split; [exact I1|]. simpl. rewrite <- I3. apply last_in. exact I4. }
      destruct (stepper x tau Fx) as [|xn [xh|] Fxn] eqn:E; [| |discriminate].
      + apply IH in H; auto.
        * destruct H as (A & B & C). split; [exact A|]. split; [exact B|]. rewrite !app_length in C. simpl in C. lia.
        * apply Forall_app. split; [assumption|constructor; [exact Hc|constructor]].
      + destruct (Qle_bool (fix_r (ratio x xn xh)) 1).
        * apply IH in H.
          -- destruct H as (A & B & C). split; [exact A|]. split; [exact B|]. rewrite !app_length in C. simpl in C. lia.
          -- eapply Fx_inv_step; eauto.
          -- rewrite !app_length. simpl. lia.
          -- apply last_snoc.
          -- destruct sols; discriminate.
          -- apply Forall_app. split; [apply acall_ok_mono; assumption|].
             constructor; [|constructor]. destruct Hc as [H1 H2]. split; [exact H1|]. apply in_or_app. left. exact H2.
        * apply IH in H; auto.
          -- destruct H as (A & B & C). split; [exact A|]. split; [exact B|]. rewrite !app_length in C. simpl in C. lia.
          -- apply Forall_app. split; [assumption|constructor; [exact Hc|constructor]].
  Qed.

  (* the stepper-driven loop refines the outcome-list model of Model.v, part 4: the events it
     produced drive [adaptive_loop] to the same times and the same step sizes *)
  Lemma arun_refines : forall fuel t_end t tau x Fx times sols calls evs times' sols' calls' evs',
    arun fuel t_end t tau x Fx times sols calls evs = Some (times', sols', calls', evs') ->
    exists evs2, evs' = evs ++ evs2 /\
      forall st, a_t st = t -> a_tau st = tau -> rev (a_times st) = times ->
        exists st', adaptive_loop t_end st evs2 = Some st' /\ rev (a_times st') = times' /\
                    map (fun c : call X FX => snd (fst c)) calls' =
                    map (fun c : call X FX => snd (fst c)) calls ++ adaptive_taus t_end st evs2.
  Proof.
    induction fuel as [|fuel IH]; intros t_end t tau x Fx times sols calls evs times' sols' calls' evs' H; simpl in H.
    - destruct (Qle_bool t_end t) eqn:Et; [|discriminate]. inversion H; subst.
      exists []. split; [symmetry; apply app_nil_r|]. intros st H1 H2 H3. exists st.
      simpl. rewrite H1, Et. split; [reflexivity|]. split; [exact H3|]. symmetry; apply app_nil_r.
    - destruct (Qle_bool t_end t) eqn:Et.
      { inversion H; subst.
        exists []. split; [symmetry; apply app_nil_r|]. intros st H1 H2 H3. exists st.
        simpl. rewrite H1, Et. split; [reflexivity|]. split; [exact H3|]. symmetry; apply app_nil_r. }
      destruct (stepper x tau Fx) as [|xn [xh|] Fxn] eqn:E; [| |discriminate].
      + apply IH in H. destruct H as (evs2 & He & Hst).
        exists (NewtonFail :: evs2). split; [rewrite He, <- app_assoc; reflexivity|].
        intros st H1 H2 H3.
        destruct (Hst (astep st NewtonFail)) as (st' & A & B & C).
        { simpl. congruence. }
        { simpl. congruence. }
        { simpl. congruence. }
        assert (Hf : Qle_bool t_end (a_t st) = false) by (rewrite H1; exact Et).
        exists st'. rewrite adaptive_loop_cons, adaptive_taus_cons by exact Hf. split; [exact A|]. split; [exact B|].
        rewrite C, map_app, <- app_assoc. simpl. rewrite H2. reflexivity.
      + set (r0 := ratio x xn xh) in *. set (p := powf (fix_r r0)) in *.
        destruct (Qle_bool (fix_r r0) 1) eqn:Er.
        * apply IH in H. destruct H as (evs2 & He & Hst).
          exists (Stepped r0 p :: evs2). split; [rewrite He, <- app_assoc; reflexivity|].
          intros st H1 H2 H3.
          assert (Ha : astep st (Stepped r0 p) =
                       {| a_t := (a_t st + a_tau st)%Q; a_tau := (a_tau st * clip_fac p)%Q;
                          a_times := (a_t st + a_tau st)%Q :: a_times st; a_log := (a_tau st, fix_r r0) :: a_log st |}).
          { unfold astep. fold (fix_r r0). rewrite Er. reflexivity. }
          destruct (Hst (astep st (Stepped r0 p))) as (st' & A & B & C).
          { rewrite Ha. simpl. congruence. }
          { rewrite Ha. simpl. congruence. }
          { rewrite Ha. simpl. congruence. }
          assert (Hf : Qle_bool t_end (a_t st) = false) by (rewrite H1; exact Et).
          exists st'. rewrite adaptive_loop_cons, adaptive_taus_cons by exact Hf. split; [exact A|]. split; [exact B|].
          rewrite C, map_app, <- app_assoc. simpl. rewrite H2. reflexivity.
        * apply IH in H. destruct H as (evs2 & He & Hst).
          exists (Stepped r0 p :: evs2). split; [rewrite He, <- app_assoc; reflexivity|].
          intros st H1 H2 H3.
          assert (Ha : astep st (Stepped r0 p) =
                       {| a_t := a_t st; a_tau := (a_tau st * clip_fac p)%Q; a_times := a_times st; a_log := a_log st |}).
          { unfold astep. fold (fix_r r0). rewrite Er. reflexivity. }
          destruct (Hst (astep st (Stepped r0 p))) as (st' & A & B & C).
          { rewrite Ha. simpl. congruence. }
          { rewrite Ha. simpl. congruence. }
          { rewrite Ha. simpl. congruence. }
          assert (Hf : Qle_bool t_end (a_t st) = false) by (rewrite H1; exact Et).
          exists st'. rewrite adaptive_loop_cons, adaptive_taus_cons by exact Hf. split; [exact A|]. split; [exact B|].
          rewrite C, map_app, <- app_assoc. simpl. rewrite H2. reflexivity.
  Qed.

  (* the run as a whole *)
  Lemma adaptive_run_l : stepper_ok -> forall fuel t0 tau0 t_end x0 times sols calls evs,
    adaptive_run X FX stepper ratio powf fuel t0 tau0 t_end x0 = Some (times, sols, calls, evs) ->
    length times = length sols /\
    Forall (fun c : call X FX => Fx_inv (fst (fst c)) (snd c) /\ In (fst (fst c)) sols) calls /\
    length evs = length calls /\
    adaptive_times t0 tau0 t_end evs = Some times /\
    map (fun c : call X FX => snd (fst c)) calls = adaptive_taus t_end (adaptive_init t0 tau0) evs.
  Proof.
    intros Hok fuel t0 tau0 t_end x0 times sols calls evs H. unfold adaptive_run in H.
    assert (Hne : [x0] <> []) by discriminate.
    pose proof (arun_inv Hok fuel t_end t0 tau0 x0 None [t0] [x0] [] [] times sols calls evs
                  (Fx_inv_none x0) eq_refl eq_refl Hne (Forall_nil _) H) as (A & B & C).
    destruct (arun_refines _ _ _ _ _ _ _ _ _ _ _ _ _ _ H) as (evs2 & He & Hst). simpl in He. subst evs2.
    destruct (Hst (adaptive_init t0 tau0) eq_refl eq_refl eq_refl) as (st' & L & T & U).
    split; [exact A|]. split; [exact B|]. split; [simpl in C; lia|].
    split; [unfold adaptive_times; rewrite L, T; reflexivity|]. exact U.
  Qed.
End DriverStateProofs.
