(* C18 -- non-vacuity for Props3.v (R := Z). *)
From Coq Require Import List Arith ZArith Bool.
From Verif.C18 Require Import Model Proofs Sum ZInst.
Import ListNotations.
Open Scope Z_scope.

Definition cA : tens Z := TCanon Z [mat_of Z 0 (M 2 1 [[1]; [2]]); mat_of Z 0 (M 2 1 [[3]; [4]])].
Definition fB : tens Z := TFull Z (full_of Z 0 ([2%nat; 2%nat], [1; 0; 0; 1])).
Definition S0 : tens2 Z := T2Sum Z [T2B Z cA; T2B Z fB].

(* the constructor accepts the sum; its entry (1,1) is 2*4 + 1 *)
Example ex_mk_sum : mk_sum Z [T2B Z cA; T2B Z fB] = Ok S0 /\ entry2 Z 0 1 Z.add Z.mul S0 [1%nat; 1%nat] = 9.
Proof. vm_compute. split; reflexivity. Qed.

(* hypotheses of sum_neg / sum_sub / sum_add are met and the results are sums again *)
Example ex_sum_neg :
  Forall (fun b => length [1%nat; 1%nat] = length (shape_of Z b)) [cA; fB] /\
  match neg2 Z Z.opp (T2Sum Z (map (T2B Z) [cA; fB])) with
  | Ok t => entry2 Z 0 1 Z.add Z.mul t [1%nat; 1%nat] = -9
  | Err _ => False
  end.
Proof. split; [repeat constructor|vm_compute; reflexivity]. Qed.

Example ex_sum_sub :
  match sub2 Z Z.opp S0 (T2B Z cA) with
  | Ok t => entry2 Z 0 1 Z.add Z.mul t [1%nat; 1%nat] = 1 /\ entry2 Z 0 1 Z.add Z.mul t [1%nat; 0%nat] = 0
  | Err _ => False
  end.
Proof. vm_compute. split; reflexivity. Qed.

(* a sum with a term of another shape is rejected *)
Example ex_sum_shape_mismatch :
  add2 Z S0 (T2B Z (TFull Z (full_of Z 0 ([3%nat], [1; 2; 3])))) = Err AssertionError.
Proof. vm_compute. reflexivity. Qed.

(* product of a 2x2 canonical tensor and a 2x2 array: shape (2,2,2,2), entry (1,1,0,0) = 8 * 1; -P negates it *)
Example ex_prod :
  shape2 Z (T2Prod Z [T2B Z cA; T2B Z fB]) = [2%nat; 2%nat; 2%nat; 2%nat] /\
  entry2 Z 0 1 Z.add Z.mul (T2Prod Z [T2B Z cA; T2B Z fB]) [1%nat; 1%nat; 0%nat; 0%nat] = 8 /\
  match neg2 Z Z.opp (T2Prod Z [T2B Z cA; T2B Z fB]) with
  | Ok t => entry2 Z 0 1 Z.add Z.mul t [1%nat; 1%nat; 0%nat; 0%nat] = -8
  | Err _ => False
  end.
Proof. vm_compute. repeat split; reflexivity. Qed.

(* TensorSum.__getitem__ with the canonical __getitem__ of Model.v on a sum of two canonical tensors: S[1, ::-1] *)
Example ex_sum_getitem :
  let gi := fun x : tens2 Z => match x with
                               | T2B _ b => bind (getitem Z 0 1 Z.add Z.mul b [IInt 1; ISlice None None (Some (-1))])
                                                 (fun y => Ok (T2B Z y))
                               | _ => Err TypeError
                               end in
  match sum_getitem Z 0 1 Z.add Z.mul gi [T2B Z cA; T2B Z cA] with
  | Ok t => shape2 Z t = [2%nat] /\ entry2 Z 0 1 Z.add Z.mul t [0%nat] = 16 /\ entry2 Z 0 1 Z.add Z.mul t [1%nat] = 12
  | Err _ => False
  end.
Proof. vm_compute. repeat split; reflexivity. Qed.

(* all-int expression: the scalars are summed *)
Example ex_sum_getitem_scalar :
  let gi := fun x : tens2 Z => match x with
                               | T2B _ b => bind (getitem Z 0 1 Z.add Z.mul b [IInt (-1); IInt 0])
                                                 (fun y => Ok (T2B Z y))
                               | _ => Err TypeError
                               end in
  sum_getitem Z 0 1 Z.add Z.mul gi [T2B Z cA; T2B Z cA] = Ok (T2B Z (TScal Z 12)).
Proof. vm_compute. reflexivity. Qed.

(* canonical / operator subtraction: the hypotheses hold for rank-1 operands *)
Example ex_canon_sub :
  let A := [mat_of Z 0 (M 2 1 [[1]; [2]]); mat_of Z 0 (M 2 1 [[3]; [4]])] in
  uniform Z A 1 /\ centry Z 0 1 Z.add Z.mul (canon_add Z A (canon_neg Z Z.opp A)) [1%nat; 1%nat] = 0.
Proof. split; [repeat constructor|vm_compute; reflexivity]. Qed.
