(* C20 -- property theorems only.  Each is closed by [exact] of a lemma of Proofs.v and
   followed by Print Assumptions.

   [New] is the protocol of compile.py after fixes/C20-atomic-cache-publish.patch (private mkdtemp
   build directory, os.replace of the finished .so, rebuild on ImportError); [Old] is compile.py:25-73
   as it stands at /repo HEAD (every artefact written in place under its final name).
   [orc] is what dlopen does with a damaged file (calibrated by the tie on every run); the theorems
   about New hold for EVERY such oracle, the refutations of Old need only that some prefix of a
   shared object kills the interpreter ([orc Header = Crash], observed: SIGBUS).
   Schedules are arbitrary lists of labels Spawn/Step/Kill: any number of processes, any forms,
   any interleaving, a crash of any process between any two atomic steps (a write is five steps:
   truncate, three growing prefixes, complete). *)
From Coq Require Import List Arith.
From Verif.C20 Require Import Model Proofs Faults Local.
Import ListNotations.

(* The invariant holds in the empty cache directory and is kept by every step. *)
Theorem invariant_initially : forall orc, Inv orc init.
Proof. exact inv_init. Qed.
Print Assumptions invariant_initially.

Theorem invariant_inductive : forall orc st l, Inv orc st -> Inv orc (step New orc st l).
Proof. exact inv_step. Qed.
Print Assumptions invariant_inductive.

(* Whatever happened -- interleavings, crashes at any point, in any number -- every entry under a final
   name is absent or the finished shared object of exactly the form that its name denotes. *)
Theorem final_entries_complete : forall orc tr n,
  files (run New orc tr init) (Final So n) = Absent \/ files (run New orc tr init) (Final So n) = Complete n.
Proof. exact final_entries_from_empty_l. Qed.
Print Assumptions final_entries_complete.

(* recovery: after any such history (starting from any directory that satisfies the invariant, e.g. one
   holding an empty or garbage .so which dlopen rejects), a fresh process that requests form n and runs
   alone terminates within FUEL steps and returns the assembler of n. *)
Theorem recovery : forall orc st0 tr p n,
  Inv orc st0 ->
  procs (run New orc tr st0) p = None ->
  outcome_of (solo New orc FUEL (step New orc (run New orc tr st0) (Spawn p n)) p) p = Some (Ok n).
Proof. exact recovery_l. Qed.
Print Assumptions recovery.

(* race safety: under every schedule, a process that has finished returned the assembler of the form
   it asked for, or was killed -- never an exception, never a dead interpreter, never a foreign module *)
Theorem race_safety : forall orc st tr p q o,
  Inv orc st -> procs (run New orc tr st) p = Some q -> ppc q = PDone o -> o = Ok (pform q) \/ o = Killed.
Proof. exact race_safety_l. Qed.
Print Assumptions race_safety.

(* ... and only a Kill label makes a process Killed (either protocol) *)
Theorem killed_only_by_kill : forall orc pr tr st p q,
  procs st p = Some q -> ppc q <> PDone Killed -> ~ In (Kill p) tr ->
  forall q', procs (run pr orc tr st) p = Some q' -> ppc q' <> PDone Killed.
Proof. exact killed_only_by_kill_l. Qed.
Print Assumptions killed_only_by_kill.

(* race liveness: there is no waiting in the protocol; a process that gets to take rank(pc) <= FUEL
   steps of its own, arbitrarily interleaved with everybody else's, is finished (either protocol) *)
Theorem race_liveness : forall pr orc tr st p q,
  procs st p = Some q -> rank (ppc q) <= steps_of p tr ->
  exists q', procs (run pr orc tr st) p = Some q' /\ pform q' = pform q /\ is_done (ppc q') = true.
Proof. exact liveness_l. Qed.
Print Assumptions race_liveness.

(* an entry once completed is never overwritten by different content *)
Theorem completed_never_overwritten : forall orc tr st n c,
  Inv orc st -> files st (Final So n) = Complete c -> files (run New orc tr st) (Final So n) = Complete c.
Proof. exact completed_stays_run_l. Qed.
Print Assumptions completed_never_overwritten.

(* nothing but the finished .so is ever written under a final name *)
Theorem no_inplace_writes : forall orc tr st r n,
  Inv orc st -> r <> So -> files (run New orc tr st) (Final r n) = files st (Final r n).
Proof. exact no_inplace_writes_l. Qed.
Print Assumptions no_inplace_writes.

(* idealised digest, made explicit: paths of different forms are different *)
Theorem digest_names : forall r r' n n', Final r n = Final r' n' -> r = r' /\ n = n'.
Proof. exact digest_names_l. Qed.
Print Assumptions digest_names.

(* ---- compile.py as it is: each conjunct fails, with an explicit schedule ---- *)

(* one process is killed while linking; the next request, in a fresh process, dies at its import
   (its second step, after the idempotent mkdir) *)
Theorem recovery_refuted : forall orc, orc Header = Crash ->
  (forall p, p <> 0 -> ~ In (Kill p) tr_killed_in_link) /\
  files (run Old orc tr_killed_in_link init) (Final So 0) = Partial Header 0 /\
  outcome_of (run Old orc (tr_killed_in_link ++ [Spawn 1 0; Step 1; Step 1]) init) 1 = Some Death.
Proof. exact recovery_refuted_l. Qed.
Print Assumptions recovery_refuted.

(* nobody is killed; a process that requests the form while another one links it dies *)
Theorem race_safety_refuted : forall orc, orc Header = Crash ->
  (forall p, ~ In (Kill p) tr_import_during_link) /\
  outcome_of (run Old orc tr_import_during_link init) 1 = Some Death.
Proof. exact race_safety_refuted_l. Qed.
Print Assumptions race_safety_refuted.

(* nobody is killed, whatever dlopen does: a process gets an exception because the other one
   truncated the .pyx it was about to compile *)
Theorem race_exception_refuted : forall orc,
  (forall p, ~ In (Kill p) tr_pyx_truncated) /\
  outcome_of (run Old orc tr_pyx_truncated init) 1 = Some Exn.
Proof. exact race_exception_refuted_l. Qed.
Print Assumptions race_exception_refuted.

(* a completed entry, already returned to process 0, is truncated by process 1's link step *)
Theorem completed_overwritten_refuted : forall orc,
  files (run Old orc tr_relink init) (Final So 0) = Complete 0 /\
  outcome_of (run Old orc tr_relink init) 0 = Some (Ok 0) /\
  files (run Old orc (tr_relink ++ [Step 1]) init) (Final So 0) = Partial Empty 0.
Proof. exact completed_overwritten_refuted_l. Qed.
Print Assumptions completed_overwritten_refuted.

(* ---- creating the cache directory on a cold start ---- *)

(* os.makedirs(MODDIR, exist_ok=True) is one atomic idempotent step of New: by race_safety no schedule
   makes it fail, and the directory exists for every process that is past it *)
Theorem cache_dir_exists : forall orc st tr p q,
  Inv orc st -> procs (run New orc tr st) p = Some q ->
  match ppc q with PMkdir | PChkDir | PCreate | PDone _ => True | _ => files (run New orc tr st) CacheDir = Complete 0 end.
Proof. exact cache_dir_exists_l. Qed.
Print Assumptions cache_dir_exists.

(* the check-then-create pair `if not isdir(MODDIR): makedirs(MODDIR)` (proto NewCC) is two steps:
   on a cache directory that does not exist yet, two processes -- on different forms, nobody killed --
   both pass the check and the second makedirs raises *)
Theorem cold_start_refuted : forall orc,
  (forall p, ~ In (Kill p) tr_cold_start) /\
  files init CacheDir = Absent /\
  outcome_of (run NewCC orc tr_cold_start init) 1 = Some Exn.
Proof. exact cold_start_refuted_l. Qed.
Print Assumptions cold_start_refuted.

(* ---- fault histories across restarts (Faults.v): every file x every size class / deletion / garbage,
        singly and in sequence, scripts/clear-cache.py, interleaved with arbitrary concurrent sessions ---- *)

(* One fault (external damage of all files of a role to any class, or clear-cache.py) that hits the
   directory while nobody is compiling keeps the invariant -- the only fault excluded is a finished .so
   cut to a size class on which dlopen kills the interpreter ([safe_fault]). *)
Theorem fault_preserves_invariant : forall orc st f,
  Inv orc st -> quiescent st -> safe_fault orc f -> Inv orc (apply_fault st f).
Proof. exact fault_preserves_inv. Qed.
Print Assumptions fault_preserves_invariant.

(* recovery at full strength: after ANY history -- sessions of any number of processes under any schedule
   with kills at any point, alternating with any sequence of such faults -- a fresh request returns the
   right assembler within FUEL steps. *)
Theorem recovery_after_faults : forall orc h st p n,
  hist orc init h st -> procs st p = None ->
  outcome_of (solo New orc FUEL (step New orc st (Spawn p n)) p) p = Some (Ok n).
Proof. exact recovery_after_faults_l. Qed.
Print Assumptions recovery_after_faults.

(* ... and throughout such a history every process that finished un-killed had the right assembler *)
Theorem race_safety_after_faults : forall orc h st p q o,
  hist orc init h st -> procs st p = Some q -> ppc q = PDone o -> o = Ok (pform q) \/ o = Killed.
Proof. exact race_safety_faults_l. Qed.
Print Assumptions race_safety_after_faults.

(* recovery from EVERY directory, not only reachable ones: arbitrary content of every .pyx/.c/.o under a
   final name (e.g. left-overs of the unrepaired protocol), arbitrary content of the build directories of
   dead processes, MODDIR present or not; final .so entries absent, right, or damaged in a class dlopen
   rejects (or loads, being a prefix of the right one). *)
Theorem recovery_every_directory : forall orc st p n,
  settled st ->
  (forall p, procs st p = None -> forall r, files st (Tmp p r) = Absent) ->
  (forall n, final_ok orc n (files st (Final So n))) ->
  procs st p = None ->
  outcome_of (solo New orc FUEL (step New orc st (Spawn p n)) p) p = Some (Ok n).
Proof. exact recovery_every_directory_l. Qed.
Print Assumptions recovery_every_directory.

(* sharpness of the exclusion (this is the open finding impl:interpreter-death:dmg-so-Header): in ANY state, if
   the entry of form n is a prefix in a class on which dlopen crashes, the next request for n dies. *)
Theorem crash_class_kills : forall orc st p n k c,
  procs st p = None -> files st (Final So n) = Partial k c -> orc k = Crash ->
  outcome_of (solo New orc FUEL (step New orc st (Spawn p n)) p) p = Some Death.
Proof. exact crash_class_kills_l. Qed.
Print Assumptions crash_class_kills.

(* sharpness of [quiescent]: clear-cache.py while a process is compiling makes that process fail *)
Theorem clear_during_build_refuted : forall orc,
  ~ quiescent (run New orc tr_before_mkdtemp init) /\
  outcome_of (step New orc (clear_cache (run New orc tr_before_mkdtemp init)) (Step 0)) 0 = Some Exn.
Proof. exact clear_during_build_refuted_l. Qed.
Print Assumptions clear_during_build_refuted.

(* ---- locality (Local.v) ---- *)

(* A request for form n neither reads nor writes the entry of any other form: two directories that differ
   only in the final .so entries of OTHER forms lead the process through the same states, step by step. *)
Theorem request_is_local : forall orc n fuel st st' p q,
  agree n st st' -> procs st p = Some q -> pform q = n ->
  agree n (solo New orc fuel st p) (solo New orc fuel st' p).
Proof. exact agree_solo. Qed.
Print Assumptions request_is_local.

(* recovery, complete case analysis for EVERY combination of corrupt files: whatever the directory holds
   (any .pyx/.c/.o, any left-over build directories of dead processes, any entries of other forms -- even
   ones on which dlopen would crash --, MODDIR present or not), the outcome of a fresh request for n is decided
   by its own entry alone: a loadable entry is returned, an absent or rejected one is rebuilt into the right
   assembler, and only a prefix in a crash class kills the interpreter. *)
Theorem fresh_request_outcome : forall orc st p n,
  settled st ->
  (forall p, procs st p = None -> forall r, files st (Tmp p r) = Absent) ->
  procs st p = None ->
  outcome_of (solo New orc FUEL (step New orc st (Spawn p n)) p) p =
  Some (match load orc (files st (Final So n)) with
        | LOk c => Ok c | LErr => Ok n | LCrash => Death end).
Proof. exact fresh_request_outcome_l. Qed.
Print Assumptions fresh_request_outcome.

(* NOT PROVED (clause by clause; what is left to the correspondence run of harness/props/c20.py):
   - "compilation interrupted at any point ... partial, truncated or corrupt generated source, C file, object
     file or shared object": PROVED for the model (recovery, recovery_after_faults, fresh_request_outcome,
     final_entries_complete).  Not proved: that the real stages write their outputs monotonically (a crash
     inside a stage leaves a PREFIX, one of five size classes) -- Cython, gcc and ld are not modelled; the tie
     emulates these states by truncating finished outputs.
   - "the next request in a fresh process succeeds and returns a CORRECT assembler": the model's [Complete n]
     means "the artefact generated from the source of form n"; that this artefact assembles the matrix of the
     form is C01's subject and is only tested here (matrix compared with the ahead-of-time assemblers).
   - "never crashes the interpreter": proved relative to the oracle [orc]; what dlopen does with a damaged file
     (orc) is measured on every run, not proved.  crash_class_kills shows the one excluded fault really kills
     (open finding impl:interpreter-death:dmg-so-Header).
   - "any number of processes ... concurrently": PROVED for the model (race_safety, race_liveness,
     cache_dir_exists) under the assumptions that rename(2) is atomic, mkdtemp names are unique (Tmp is indexed
     by pid) and a Python-level step between two file-system calls is atomic.  These are not proved.
   - "an entry once completed is never overwritten by different content": PROVED at the granularity of the
     model (completed_never_overwritten: content = the form the .so was generated from).  Byte identity of two
     builds of the same source is not claimed (and false: build paths differ in the debug info).
   - digest injectivity (SHAKE-128, 64 bit) is an idealisation (digest_names is true by construction).
   - the in-process dictionary of compile_vform (compile.py:120-132) and compile_vforms are not modelled
     here (C13 models the cache key). *)
