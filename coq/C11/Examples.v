(* C11 -- non-vacuity: concrete non-trivial inputs meet the hypotheses of the theorems. *)
From Coq Require Import QArith Qcanon List Arith Bool ZArith Lia.
From Verif.C11 Require Import Spec Algebra Model Proofs MGProofs MGSolve.
Import ListNotations.
Open Scope Qc_scope.
Definition q (a : Z) (b : positive) : Qc := Q2Qc (a # b).

(* the SPD matrix [[4,-1,0],[-1,4,-1],[0,-1,2]] as CSR with unsorted columns in row 1
   and an explicit zero in row 0 *)
Definition exM : csr := mk_csr [0;3;6;8]%nat [0;2;1; 2;0;1; 1;2]%nat
  [q 4 1; q 0 1; q (-1) 1;  q (-1) 1; q (-1) 1; q 4 1;  q (-1) 1; q 2 1].
Definition exD : dense := [[q 4 1; q (-1) 1; q 0 1]; [q (-1) 1; q 4 1; q (-1) 1]; [q 0 1; q (-1) 1; q 2 1]].
Definition ex_xs : vec := [q 1 1; q 2 1; q (-1) 2].
Definition ex_b : vec := [q 2 1; q 15 2; q (-3) 1].      (* A xs *)
Definition ex_x : vec := [q 0 1; q 1 4; q 3 1].

Ltac qc_neq := let H := fresh in intro H; apply (f_equal this) in H; vm_compute in H; discriminate.

Example ex_rows_wf : forall i, In i (base_order 3 None) ->
  (i < 3)%nat /\ wf_row 3 i (row_entries exM i) /\ 0 < entry exM i i /\
  mv 3 (entry exM) (vget ex_xs) i = vget ex_b i.
Proof.
  intros i Hi. simpl in Hi.
  destruct Hi as [<-|[<-|[<-|[]]]]; (split; [lia|split; [split|split]]);
    try (intros c a Hin; vm_compute in Hin;
         repeat (destruct Hin as [Hin|Hin]; [inversion Hin; subst; lia|]); contradiction);
    try (vm_compute; lia); try (vm_compute; reflexivity);
    try (apply Qc_is_canon; vm_compute; reflexivity).
Qed.

Example ex_symmetric : symmetric 3 (entry exM).
Proof.
  intros i j Hi Hj.
  destruct i as [|[|[|i]]]; try lia; destruct j as [|[|[|j]]]; try lia;
    apply Qc_is_canon; vm_compute; reflexivity.
Qed.

(* the sweeps really move x, and the energy really decreases *)
Example ex_sweep_moves :
  map this (gauss_seidel (Sparse exM 3) ex_x ex_b 1 None Symmetric) <> map this ex_x.
Proof. vm_compute. discriminate. Qed.

Example ex_energy_decreases :
  energy 3 (entry exM) (vget ex_xs) (vget (gauss_seidel (Sparse exM 3) ex_x ex_b 2 (Some [2;0]%nat) Backward))
  < energy 3 (entry exM) (vget ex_xs) (vget ex_x).
Proof. vm_compute. reflexivity. Qed.

Example ex_fixed : gauss_seidel (Sparse exM 3) ex_xs ex_b 2 None Symmetric = ex_xs.
Proof. apply gs_fixed_point_sparse_l. intros i Hi. destruct (ex_rows_wf i Hi) as (H1 & H2 & H3 & H4).
  repeat split; try assumption; try apply H2.
  intro E. rewrite E in H3. exact (Qclt_not_eq _ _ H3 eq_refl). Qed.

Example ex_dense_sparse_same :
  map this (gauss_seidel (Dense exD) ex_x ex_b 2 (Some [1;2;1]%nat) Symmetric) =
  map this (gauss_seidel (Sparse exM 3) ex_x ex_b 2 (Some [1;2;1]%nat) Symmetric).
Proof. vm_compute. reflexivity. Qed.

(* a CSR with TWO stored diagonal entries in row 0 (outside wf_row): the routine uses the last one,
   not their sum -- the hypothesis `at most one stored diagonal entry` of gs_textbook is needed *)
Definition exDup : csr := mk_csr [0;2;3]%nat [0;0;1]%nat [q 1 1; q 1 1; q 1 1].
Example ex_duplicate_diagonal_not_textbook :
  map this (gs_row exDup [q 2 1; q 0 1] [q 0 1; q 0 1] 0) = [2%Q; 0%Q] /\ this (entry exDup 0 0) = 2%Q.
Proof. vm_compute. split; reflexivity. Qed.

(* iterative_solve: halving iteration x -> x/2, res = |x| for x >= 0 *)
Example ex_iterative_converges :
  iterative_solve (fun x => x / q 2 1) (fun x => x) (q 1 1) (q 1 5) 10 = (q 1 8, Finite 3).
Proof. apply injective_projections; [apply Qc_is_canon|]; vm_compute; reflexivity. Qed.
Example ex_iterative_limit :
  snd (iterative_solve (fun x => x / q 2 1) (fun x => x) (q 1 1) (q 1 5) 2) = Inf.
Proof. vm_compute. reflexivity. Qed.

(* twogrid loop with an array-valued start (Some v) *)
Example ex_twogrid_start :
  snd (twogrid_loop (fun x => x / q 2 1) (fun x => x) (fun x => x / q 4 1) 0 (Some (q 8 1)) (q 1 100) 50)
  = Converged.
Proof. vm_compute. reflexivity. Qed.

(* smoothing sets: a level with act = {3,4}, deact = {5}, candidates {1,2}, Dirichlet {2,4} *)
Example ex_smoothing_set :
  smoothing_set StCellSupp (Some 1%nat) [3;4]%nat [5]%nat [1;2]%nat [2;4]%nat 2 2 = [3;5]%nat /\
  smoothing_set StCellSupp (Some 1%nat) [3;4]%nat [5]%nat [1;2]%nat [2;4]%nat 2 1 = [1]%nat /\
  smoothing_set StCellSupp (Some 1%nat) [3;4]%nat [5]%nat [1;2]%nat [2;4]%nat 2 0 = [].
Proof. vm_compute. repeat split; reflexivity. Qed.

(* multigrid: a two-level hierarchy (5 fine / 3 coarse hat functions on [0,1], Dirichlet ends)
   satisfies the hypotheses [good] of mg_fixed_point, and the cycle really moves other vectors *)
Definition mgA : dense :=
  [[q 2 1; q (-1) 1; 0; 0; 0]; [q (-1) 1; q 2 1; q (-1) 1; 0; 0]; [0; q (-1) 1; q 2 1; q (-1) 1; 0];
   [0; 0; q (-1) 1; q 2 1; q (-1) 1]; [0; 0; 0; q (-1) 1; q 2 1]].
Definition mgP : dense := [[1; 0; 0]; [q 1 2; q 1 2; 0]; [0; 1; 0]; [0; q 1 2; q 1 2]; [0; 0; 1]].
Definition mgInd : list nat := [1; 2; 3]%nat.
Definition mgL : level := mk_level mgP mgA mgInd (dsolve (submat mgA mgInd)).
Definition mgInd0 : list nat := [1]%nat.
Definition mgB0 : vec -> vec := dsolve (submat (galerkin mgP mgA) mgInd0).
Definition mgD (i : nat) : Prop := i = 1%nat \/ i = 2%nat \/ i = 3%nat.
Definition mgDc (j : nat) : Prop := j = 1%nat.

Lemma vec_eq_this : forall a b : vec, map this a = map this b -> a = b.
Proof.
  induction a; intros [|y b] H; simpl in H; try discriminate; [reflexivity|].
  injection H as H1 H2. f_equal; [|apply IHa; exact H2].
  apply Qc_is_canon. rewrite H1. reflexivity.
Qed.

Example ex_mg_good : good mgInd0 mgB0 5 mgD [mgL].
Proof.
  simpl. split; [reflexivity|]. split.
  { intros i [<-|[<-|[<-|[]]]]; reflexivity. }
  split; [reflexivity|]. split.
  { intros i [<-|[<-|[<-|[]]]]; (split; [lia|split; [unfold mgD; auto|qc_neq]]). }
  split. { apply vec_eq_this. vm_compute. reflexivity. }
  exists 3%nat, mgDc. split; [reflexivity|]. split.
  - intros v Hl Hv j Hj. unfold mgDc in Hj. subst j.
    destruct v as [|a [|b [|c [|d [|e [|? ?]]]]]]; simpl in Hl; try discriminate.
    assert (Hb := Hv 1%nat (or_introl eq_refl)).
    assert (Hc := Hv 2%nat (or_intror (or_introl eq_refl))).
    assert (Hd := Hv 3%nat (or_intror (or_intror eq_refl))).
    unfold vget in *. simpl in Hb, Hc, Hd. subst.
    cbn. ring.
  - split.
    + intros i [<-|[]]. reflexivity.
    + apply vec_eq_this. vm_compute. reflexivity.
Qed.

Example ex_mg_moves :
  map this (mg_step SmGS 1 mgInd0 mgB0 [mgL] [0; q 1 1; 0; 0; 0] [0; q 1 1; q 2 1; q 1 1; 0])
  <> [0%Q; 1%Q; 0%Q; 0%Q; 0%Q].
Proof. vm_compute. discriminate. Qed.

Example ex_mg_fixed :
  mg_step SmSymmetric 2 mgInd0 mgB0 [mgL] [0; q 1 1; q 2 1; q 1 1; 0] [q 7 1; 0; q 2 1; 0; q (-3) 1]
  = [0; q 1 1; q 2 1; q 1 1; 0].
Proof.
  apply (mg_fixed_point_l SmSymmetric 2 mgInd0 mgB0 mgL [] 5 mgD); try reflexivity.
  - exact ex_mg_good.
  - intros i Hi. destruct Hi as [Hi|[Hi|Hi]]; subst i; apply Qc_is_canon; vm_compute; reflexivity.
Qed.

(* ---------------------------------------------------------------------- *)
(* multigrid energy: a two-level hierarchy (3 fine dofs, 1 coarse dof) meets
   goodE / dsym / dpsd, and the cycle with exact solves really lowers the energy *)
(* ---------------------------------------------------------------------- *)
From Verif.C11 Require Import MGEnergy.
Definition eA : dense := [[1+1; -(1); 0]; [-(1); 1+1; -(1)]; [0; -(1); 1+1]].
Definition eP : dense := [[1]; [1+1]; [1]].
Definition eInd : list nat := [0; 2]%nat.
Definition eB (r : vec) : vec := map (fun v => v / (1+1)) r.
Definition eL : level := mk_level eP eA eInd eB.
Definition eInd0 : list nat := [0]%nat.
Definition eB0 (r : vec) : vec := map (fun v => v / (1+1+1+1)) r.

Lemma mat_eq_this : forall a b : dense, map (map this) a = map (map this) b -> a = b.
Proof.
  induction a; intros [|y b] H; simpl in H; try discriminate; [reflexivity|].
  injection H as H1 H2. f_equal; [apply vec_eq_this; exact H1|apply IHa; exact H2].
Qed.

Lemma two_neq0 : 1 + 1 <> 0. Proof. qc_neq. Qed.
Lemma four_neq0 : 1 + 1 + 1 + 1 <> 0. Proof. qc_neq. Qed.

Example ex_eA_wf : wfmat eA 3 3.
Proof. split; [split; [reflexivity|intros row [<-|[<-|[<-|[]]]]; reflexivity]|reflexivity]. Qed.
Example ex_eP_wf : wfmat eP 3 1.
Proof. split; [split; [reflexivity|intros row [<-|[<-|[<-|[]]]]; reflexivity]|reflexivity]. Qed.

Example ex_galerkin : galerkin eP eA = [[1+1+1+1]].
Proof. apply mat_eq_this. vm_compute. reflexivity. Qed.

Example ex_eA_sym : dsym 3 eA.
Proof.
  intros i j Hi Hj. destruct i as [|[|[|i]]]; try lia; destruct j as [|[|[|j]]]; try lia; reflexivity.
Qed.

Lemma Qc_add_nonneg : forall a b : Qc, 0 <= a -> 0 <= b -> 0 <= a + b.
Proof. intros. replace 0 with (0 + 0) by ring. apply Qcplus_le_compat; assumption. Qed.

Example ex_eA_psd : dpsd 3 eA.
Proof.
  intros v. unfold dotn, mv, dentry, drow. simpl.
  match goal with |- 0 <= ?e =>
    replace e with (v 0%nat * v 0%nat + (v 0%nat - v 1%nat) * (v 0%nat - v 1%nat)
                    + (v 1%nat - v 2%nat) * (v 1%nat - v 2%nat) + v 2%nat * v 2%nat) by ring end.
  repeat apply Qc_add_nonneg; apply Qc_sq_nonneg.
Qed.

Example ex_goodE : goodE eInd0 eB0 3 eA [eL].
Proof.
  simpl. split; [exact ex_eA_wf|]. split; [reflexivity|]. split.
  { split; [repeat constructor; simpl; intuition discriminate|].
    intros i [<-|[<-|[]]]; lia. }
  split.
  { intros r Hr. destruct r as [|a [|b [|? ?]]]; simpl in Hr; try discriminate.
    split; [reflexivity|]. unfold eB, dmv, submat, gather, vget, drow. simpl.
    f_equal; [field; exact two_neq0|f_equal; field; exact two_neq0]. }
  exists 1%nat. split; [exact ex_eP_wf|]. simpl. rewrite ex_galerkin.
  split. { split; [split; [reflexivity|intros row [<-|[]]; reflexivity]|reflexivity]. }
  split. { split; [repeat constructor; simpl; intuition|]. intros i [<-|[]]. lia. }
  intros r Hr. destruct r as [|a [|? ?]]; simpl in Hr; try discriminate.
  split; [reflexivity|]. unfold eB0, dmv, submat, gather, vget, drow. simpl.
  f_equal. field. exact four_neq0.
Qed.

(* the cycle strictly lowers the energy error of x = 0 for xs = (1,2,1), f = A xs = (0,2,0) *)
Example ex_mg_energy_strict :
  energy 3 (dentry eA) (vget [1; 1+1; 1])
         (vget (mg_step SmExact 1 eInd0 eB0 [eL] [0; 0; 0] [0; 1+1; 0]))
  < energy 3 (dentry eA) (vget [1; 1+1; 1]) (vget [0; 0; 0]).
Proof. vm_compute. reflexivity. Qed.

Example ex_mg_energy_thm :
  energy 3 (dentry eA) (vget [1; 1+1; 1])
         (vget (mg_step SmExact 1 eInd0 eB0 [eL] [1; 0; -(1)] [0; 1+1; 0]))
  <= energy 3 (dentry eA) (vget [1; 1+1; 1]) (vget [1; 0; -(1)]).
Proof.
  apply (mg_exact_energy_monotone_l 1 eInd0 eB0 eL [] 3 eA);
    try exact ex_goodE; try exact ex_eA_sym; try exact ex_eA_psd; try reflexivity;
    apply vec_eq_this; vm_compute; reflexivity.
Qed.
