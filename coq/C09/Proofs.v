(* C09 -- proofs.  Part A: identities of Gram matrices of ANY quadrature rule (finite
   weighted point sums), part B: the index arithmetic of the 1D assemblers, part C:
   closed-form determinants / inverses. *)
From Coq Require Import QArith Qcanon Qcabs ZArith List Bool Arith Lia.
From Verif.lib Require Import Bsp.
From Verif.C02 Require Import Proofs.
From Verif.C09 Require Import Model.
Import ListNotations.
Open Scope Qc_scope.

(* ------------------------------------------------------------------ *)
(* finite sums *)

Lemma sumf_nil {A} (f : A -> Qc) : sumf f [] = 0.
Proof. reflexivity. Qed.

Lemma sumf_cons {A} (f : A -> Qc) a l : sumf f (a :: l) = f a + sumf f l.
Proof. reflexivity. Qed.

Lemma sumf_app {A} (f : A -> Qc) l1 l2 : sumf f (l1 ++ l2) = sumf f l1 + sumf f l2.
Proof. induction l1 as [|a l IH]; cbn [app]; rewrite ?sumf_nil, ?sumf_cons, ?IH; ring. Qed.

Lemma sumf_ext {A} (f g : A -> Qc) l : (forall a, In a l -> f a = g a) -> sumf f l = sumf g l.
Proof.
  induction l as [|a l IH]; intros H; [reflexivity|].
  rewrite !sumf_cons, (H a (or_introl eq_refl)), IH; [reflexivity|].
  intros b Hb. apply H. right. exact Hb.
Qed.

Lemma sumf_map {A B} (g : A -> B) (f : B -> Qc) l : sumf f (map g l) = sumf (fun a => f (g a)) l.
Proof. induction l as [|a l IH]; [reflexivity|]. cbn [map]. rewrite !sumf_cons, IH. reflexivity. Qed.

Lemma sumf_plus {A} (f g : A -> Qc) l : sumf (fun a => f a + g a) l = sumf f l + sumf g l.
Proof. induction l as [|a l IH]; rewrite ?sumf_nil, ?sumf_cons, ?IH; ring. Qed.

Lemma sumf_scal {A} c (f : A -> Qc) l : sumf (fun a => c * f a) l = c * sumf f l.
Proof. induction l as [|a l IH]; rewrite ?sumf_nil, ?sumf_cons, ?IH; ring. Qed.

Lemma sumf_scal_r {A} c (f : A -> Qc) l : sumf (fun a => f a * c) l = sumf f l * c.
Proof. induction l as [|a l IH]; rewrite ?sumf_nil, ?sumf_cons, ?IH; ring. Qed.

Lemma sumf_scal_both {A} c d (f : A -> Qc) l : c * sumf f l * d = sumf (fun a => c * f a * d) l.
Proof. induction l as [|a l IH]; rewrite ?sumf_nil, ?sumf_cons, <- ?IH; ring. Qed.

Lemma sumf_mul {A B} (f : A -> Qc) (g : B -> Qc) l1 l2 :
  sumf f l1 * sumf g l2 = sumf (fun a => sumf (fun b => f a * g b) l2) l1.
Proof.
  rewrite <- sumf_scal_r. apply sumf_ext. intros a _. rewrite <- sumf_scal. reflexivity.
Qed.

Lemma sumf_zero {A} (l : list A) : sumf (fun _ => 0) l = 0.
Proof. induction l as [|a l IH]; rewrite ?sumf_nil, ?sumf_cons, ?IH; ring. Qed.

Lemma sumf_swap {A B} (f : A -> B -> Qc) la lb :
  sumf (fun a => sumf (fun b => f a b) lb) la = sumf (fun b => sumf (fun a => f a b) la) lb.
Proof.
  induction la as [|a la IH].
  - cbn [sumf fold_right]. symmetry. apply sumf_zero.
  - rewrite sumf_cons, IH, <- sumf_plus. apply sumf_ext. intros b _. rewrite sumf_cons. reflexivity.
Qed.

Lemma sumf_concat {A} (f : A -> Qc) ls : sumf f (concat ls) = sumf (fun l => sumf f l) ls.
Proof. induction ls as [|l ls IH]; [reflexivity|]. cbn [concat]. rewrite sumf_app, sumf_cons, IH. reflexivity. Qed.

Lemma sumf_flat_map {A B} (g : A -> list B) (f : B -> Qc) l :
  sumf f (flat_map g l) = sumf (fun a => sumf f (g a)) l.
Proof. rewrite flat_map_concat_map, sumf_concat, sumf_map. reflexivity. Qed.

Lemma Qcmult_nonneg (a b : Qc) : 0 <= a -> 0 <= b -> 0 <= a * b.
Proof. intros Ha Hb. replace 0 with (0 * b) by ring. apply Qcmult_le_compat_r; assumption. Qed.

Lemma Qc_sq_nonneg (x : Qc) : 0 <= x * x.
Proof.
  destruct (Qclt_le_dec x 0) as [H|H].
  - replace (x * x) with ((- x) * (- x)) by ring.
    assert (0 <= - x). { replace 0 with (- 0) by ring. apply Qcopp_le_compat. apply Qclt_le_weak. exact H. }
    apply Qcmult_nonneg; assumption.
  - apply Qcmult_nonneg; assumption.
Qed.

Lemma sumf_nonneg {A} (f : A -> Qc) l : (forall a, In a l -> 0 <= f a) -> 0 <= sumf f l.
Proof.
  induction l as [|a l IH]; intros H.
  - apply Qcle_refl.
  - rewrite sumf_cons. replace 0 with (0 + 0) by ring. apply Qcplus_le_compat.
    + apply H. left. reflexivity.
    + apply IH. intros b Hb. apply H. right. exact Hb.
Qed.

(* ------------------------------------------------------------------ *)
(* Part A.  Gram matrices of a weighted point set.
   pts : the quadrature points (any type: 1D nodes, tensor nodes, ...);
   w   : the weight of a point (quadrature weight x weight function x |det J|);
   U,V : basis function number i evaluated at a point (or a derivative of it). *)

Section Gram.
  Context {P : Type}.
  Variable pts : list P.
  Variable w : P -> Qc.

  Definition gram (U V : P -> nat -> Qc) (i j : nat) : Qc :=
    sumf (fun x => w x * (U x i * V x j)) pts.

  Lemma gram_sym_l U i j : gram U U i j = gram U U j i.
  Proof. unfold gram. apply sumf_ext. intros. ring. Qed.

  (* sum over a list of dof numbers *)
  Definition bsum (I : list nat) (c : nat -> Qc) : Qc := sumf c I.

  (* x^T G y = sum_pts w (sum_i x_i U_i)(sum_j y_j V_j) *)
  Lemma gram_bilinear_l U V (I J : list nat) (c d : nat -> Qc) :
    bsum I (fun i => bsum J (fun j => c i * gram U V i j * d j)) =
    sumf (fun x => w x * (bsum I (fun i => c i * U x i) * bsum J (fun j => d j * V x j))) pts.
  Proof.
    unfold bsum, gram.
    transitivity (sumf (fun i => sumf (fun x => sumf (fun j => c i * (w x * (U x i * V x j)) * d j) J) pts) I).
    { apply sumf_ext. intros i _. rewrite sumf_swap. apply sumf_ext. intros j _.
      apply sumf_scal_both. }
    rewrite sumf_swap. apply sumf_ext. intros x _.
    rewrite sumf_mul, <- sumf_scal. apply sumf_ext. intros i _.
    rewrite <- sumf_scal. apply sumf_ext. intros j _. ring.
  Qed.

  (* mass_sym_psd: the quadratic form is a weighted sum of squares *)
  Lemma gram_quadratic_l U (I : list nat) (c : nat -> Qc) :
    bsum I (fun i => bsum I (fun j => c i * gram U U i j * c j)) =
    sumf (fun x => w x * (bsum I (fun i => c i * U x i) * bsum I (fun i => c i * U x i))) pts.
  Proof. apply gram_bilinear_l. Qed.

  Lemma gram_psd_l U (I : list nat) (c : nat -> Qc) :
    (forall x, In x pts -> 0 <= w x) ->
    0 <= bsum I (fun i => bsum I (fun j => c i * gram U U i j * c j)).
  Proof.
    intros Hw. rewrite gram_quadratic_l. apply sumf_nonneg. intros x Hx.
    apply Qcmult_nonneg; [apply Hw; exact Hx|apply Qc_sq_nonneg].
  Qed.

  (* mass_sum: partition of unity at the quadrature points => the entries sum to the sum of weights *)
  Lemma gram_sum_l U V (I J : list nat) :
    (forall x, In x pts -> bsum I (U x) = 1) -> (forall x, In x pts -> bsum J (V x) = 1) ->
    bsum I (fun i => bsum J (fun j => gram U V i j)) = sumf w pts.
  Proof.
    intros HU HV.
    transitivity (bsum I (fun i => bsum J (fun j => 1 * gram U V i j * 1))).
    { unfold bsum. apply sumf_ext. intros i _. apply sumf_ext. intros j _. ring. }
    rewrite gram_bilinear_l. apply sumf_ext. intros x Hx.
    transitivity (w x * (bsum I (U x) * bsum J (V x))).
    { unfold bsum. f_equal. f_equal; apply sumf_ext; intros; ring. }
    rewrite HU, HV by exact Hx. ring.
  Qed.

  (* stiff_kernel_const: if the (derivatives of the) trial functions sum to zero at every
     quadrature point, every row of the matrix sums to zero: K * 1 = 0 *)
  Lemma gram_kernel_l U V (J : list nat) i :
    (forall x, In x pts -> bsum J (V x) = 0) -> bsum J (fun j => gram U V i j) = 0.
  Proof.
    intros HV. unfold bsum, gram. rewrite sumf_swap.
    transitivity (sumf (fun _ : P => 0) pts); [|apply sumf_zero].
    apply sumf_ext. intros x Hx.
    transitivity (w x * U x i * sumf (V x) J).
    { rewrite <- sumf_scal. apply sumf_ext. intros. ring. }
    specialize (HV x Hx). unfold bsum in HV. rewrite HV. ring.
  Qed.
End Gram.

(* kron_factorisation: the Gram entry of a tensor-product rule with tensor-product basis
   functions is the product of the 1D Gram entries (generic path with a tensor rule ==
   Kronecker path with the same 1D rules). *)
Lemma tensor2_l {A B} (P1 : list A) (P2 : list B) (w1 u1 v1 : A -> Qc) (w2 u2 v2 : B -> Qc) :
  sumf (fun a => sumf (fun b => (w1 a * w2 b) * ((u1 a * u2 b) * (v1 a * v2 b))) P2) P1
  = sumf (fun a => w1 a * (u1 a * v1 a)) P1 * sumf (fun b => w2 b * (u2 b * v2 b)) P2.
Proof.
  rewrite <- sumf_scal_r. apply sumf_ext. intros a _.
  rewrite <- sumf_scal. apply sumf_ext. intros b _. ring.
Qed.

Lemma tensor3_l {A B C} (P1 : list A) (P2 : list B) (P3 : list C)
  (w1 u1 v1 : A -> Qc) (w2 u2 v2 : B -> Qc) (w3 u3 v3 : C -> Qc) :
  sumf (fun a => sumf (fun b => sumf (fun c =>
     (w1 a * w2 b * w3 c) * ((u1 a * u2 b * u3 c) * (v1 a * v2 b * v3 c))) P3) P2) P1
  = sumf (fun a => w1 a * (u1 a * v1 a)) P1 * sumf (fun b => w2 b * (u2 b * v2 b)) P2
    * sumf (fun c => w3 c * (u3 c * v3 c)) P3.
Proof.
  transitivity (sumf (fun a => (w1 a * (u1 a * v1 a)) *
       (sumf (fun b => w2 b * (u2 b * v2 b)) P2 * sumf (fun c => w3 c * (u3 c * v3 c)) P3)) P1).
  - apply sumf_ext. intros a _. rewrite <- tensor2_l. rewrite <- sumf_scal. apply sumf_ext. intros b _.
    rewrite <- sumf_scal. apply sumf_ext. intros c _. ring.
  - rewrite sumf_scal_r. ring.
Qed.

(* the 2D Laplace integrand grad u . grad v with tensor-product functions:
   K1 (x) M2 + M1 (x) K2 *)
Lemma tensor2_stiffness_l {A B} (P1 : list A) (P2 : list B)
  (w1 u1 v1 du1 dv1 : A -> Qc) (w2 u2 v2 du2 dv2 : B -> Qc) :
  sumf (fun a => sumf (fun b =>
     (w1 a * w2 b) * ((du1 a * u2 b) * (dv1 a * v2 b) + (u1 a * du2 b) * (v1 a * dv2 b))) P2) P1
  = sumf (fun a => w1 a * (du1 a * dv1 a)) P1 * sumf (fun b => w2 b * (u2 b * v2 b)) P2
  + sumf (fun a => w1 a * (u1 a * v1 a)) P1 * sumf (fun b => w2 b * (du2 b * dv2 b)) P2.
Proof.
  rewrite <- !tensor2_l, <- sumf_plus. apply sumf_ext. intros a _.
  rewrite <- sumf_plus. apply sumf_ext. intros b _. ring.
Qed.

Lemma tensor3_stiffness_l {A B C} (P1 : list A) (P2 : list B) (P3 : list C)
  (w1 u1 v1 du1 dv1 : A -> Qc) (w2 u2 v2 du2 dv2 : B -> Qc) (w3 u3 v3 du3 dv3 : C -> Qc) :
  let G1 f g := sumf (fun a => w1 a * (f a * g a)) P1 in
  let G2 f g := sumf (fun b => w2 b * (f b * g b)) P2 in
  let G3 f g := sumf (fun c => w3 c * (f c * g c)) P3 in
  sumf (fun a => sumf (fun b => sumf (fun c =>
     (w1 a * w2 b * w3 c) *
       ((du1 a * u2 b * u3 c) * (dv1 a * v2 b * v3 c)
        + (u1 a * du2 b * u3 c) * (v1 a * dv2 b * v3 c)
        + (u1 a * u2 b * du3 c) * (v1 a * v2 b * dv3 c))) P3) P2) P1
  = G1 du1 dv1 * (G2 u2 v2 * G3 u3 v3)
    + G1 u1 v1 * (G2 du2 dv2 * G3 u3 v3 + G2 u2 v2 * G3 du3 dv3).
Proof.
  intros G1 G2 G3. unfold G1, G2, G3.
  transitivity (
    sumf (fun a => w1 a * (du1 a * dv1 a)) P1 * sumf (fun b => w2 b * (u2 b * v2 b)) P2 * sumf (fun c => w3 c * (u3 c * v3 c)) P3
    + sumf (fun a => w1 a * (u1 a * v1 a)) P1 * sumf (fun b => w2 b * (du2 b * dv2 b)) P2 * sumf (fun c => w3 c * (u3 c * v3 c)) P3
    + sumf (fun a => w1 a * (u1 a * v1 a)) P1 * sumf (fun b => w2 b * (u2 b * v2 b)) P2 * sumf (fun c => w3 c * (du3 c * dv3 c)) P3);
  [|ring].
  rewrite <- !tensor3_l, <- !sumf_plus. apply sumf_ext. intros a _.
  rewrite <- !sumf_plus. apply sumf_ext. intros b _.
  rewrite <- !sumf_plus. apply sumf_ext. intros c _. ring.
Qed.

(* ------------------------------------------------------------------ *)
(* the iterated rule: weights sum to (sum of reference weights)/2 * (b - a), per cell and
   over a whole mesh (telescoping): = |domain| when the reference weights sum to 2 *)

Lemma gauss_cell_weights ref a b :
  sumf snd (gauss_cell ref a b) = half * (b - a) * sumf snd ref.
Proof.
  unfold gauss_cell. rewrite sumf_map. cbn [snd]. rewrite <- sumf_scal. reflexivity.
Qed.

Lemma half_two : half * Q2Qc (2 # 1) = 1.
Proof. apply Qc_is_canon. reflexivity. Qed.

Lemma cells_weights ref : sumf snd ref = Q2Qc (2 # 1) ->
  forall msh, sumf snd (iterated ref msh) = sumf (fun ab => snd ab - fst ab) (cells msh).
Proof.
  intros H2 msh. unfold iterated. rewrite sumf_concat, sumf_map. apply sumf_ext. intros [a b] _.
  rewrite gauss_cell_weights, H2. cbn [fst snd].
  transitivity ((half * Q2Qc (2 # 1)) * (b - a)); [ring|]. rewrite half_two. ring.
Qed.

Lemma cells_telescope : forall msh a, sumf (fun ab => snd ab - fst ab) (cells (a :: msh)) = last (a :: msh) a - a.
Proof.
  induction msh as [|b t IH]; intros a.
  - cbn. ring.
  - change (cells (a :: b :: t)) with ((a, b) :: cells (b :: t)). rewrite sumf_cons, IH. cbn [fst snd].
    replace (last (a :: b :: t) a) with (last (b :: t) b).
    + ring.
    + change (last (a :: b :: t) a) with (last (b :: t) a).
      clear. revert b. induction t as [|c t IH]; intros b; [reflexivity|].
      change (last (b :: c :: t) b) with (last (c :: t) b). change (last (b :: c :: t) a) with (last (c :: t) a).
      destruct t as [|d t']; [reflexivity|].
      change (last (c :: d :: t') b) with (last (d :: t') b). change (last (c :: d :: t') a) with (last (d :: t') a).
      specialize (IH d).
      change (last (c :: d :: t') c) with (last (d :: t') c) in IH.
      clear IH. revert d. induction t' as [|e t'' IH2]; intros d; [reflexivity|].
      change (last (d :: e :: t'') b) with (last (e :: t'') b). change (last (d :: e :: t'') a) with (last (e :: t'') a).
      apply IH2.
Qed.

Lemma iterated_weights_sum_l ref a msh : sumf snd ref = Q2Qc (2 # 1) ->
  sumf snd (iterated ref (a :: msh)) = last (a :: msh) a - a.
Proof. intros H. rewrite cells_weights by exact H. apply cells_telescope. Qed.

(* exactness on monomials (with a defect) extends to polynomials by linearity *)
Lemma quad_poly_defect_l r eps : forall c k,
  (forall i, (k <= i < k + length c)%nat -> Qcabs (rule_moment r i - moment_exact i) <= eps) ->
  Qcabs (sumf (fun xw => snd xw * (qpow (fst xw) k * peval c (fst xw))) r - pint k c) <= eps * l1norm c.
Proof.
  induction c as [|a c IH]; intros k H.
  - cbn [peval pint l1norm].
    replace (sumf (fun xw : Qc * Qc => snd xw * (qpow (fst xw) k * 0)) r) with 0.
    + replace (0 - 0) with 0 by ring. replace (eps * 0) with 0 by ring.
      rewrite Qcabs_pos; apply Qcle_refl.
    + symmetry. transitivity (sumf (fun _ : Qc * Qc => 0) r); [apply sumf_ext; intros; ring|apply sumf_zero].
  - cbn [peval pint l1norm].
    replace (sumf (fun xw => snd xw * (qpow (fst xw) k * (a + fst xw * peval c (fst xw)))) r
             - (a * moment_exact k + pint (S k) c))
      with (a * (rule_moment r k - moment_exact k)
            + (sumf (fun xw => snd xw * (qpow (fst xw) (S k) * peval c (fst xw))) r - pint (S k) c)).
    2:{ unfold rule_moment.
        replace (sumf (fun xw => snd xw * (qpow (fst xw) k * (a + fst xw * peval c (fst xw)))) r)
          with (a * sumf (fun xw => snd xw * qpow (fst xw) k) r
                + sumf (fun xw => snd xw * (qpow (fst xw) (S k) * peval c (fst xw))) r); [ring|].
        rewrite <- sumf_scal, <- sumf_plus. apply sumf_ext. intros. cbn [qpow]. ring. }
    eapply Qcle_trans; [apply Qcabs_triangle|].
    replace (eps * (Qcabs a + l1norm c)) with (Qcabs a * eps + eps * l1norm c) by ring.
    apply Qcplus_le_compat.
    + rewrite Qcabs_Qcmult. rewrite (Qcmult_comm (Qcabs a)), (Qcmult_comm (Qcabs a)).
      apply Qcmult_le_compat_r; [|apply Qcabs_nonneg]. apply H. cbn [length]. lia.
    + apply IH. intros i Hi. apply H. cbn [length]. lia.
Qed.

(* ------------------------------------------------------------------ *)
(* Part B.  index arithmetic of the 1D assemblers *)

Lemma qeqb_false_iff a b : qeqb a b = false <-> a <> b.
Proof.
  split.
  - intros H E. apply qeqb_iff in E. congruence.
  - intros H. destruct (qeqb a b) eqn:E; [|reflexivity]. apply qeqb_iff in E. contradiction.
Qed.

Lemma sif_cons off a b t : span_indices_from off (a :: b :: t) =
  if qeqb a b then span_indices_from (S off) (b :: t) else off :: span_indices_from (S off) (b :: t).
Proof. reflexivity. Qed.
Lemma mesh_cons a b t : mesh (a :: b :: t) = if qeqb a b then mesh (b :: t) else a :: mesh (b :: t).
Proof. reflexivity. Qed.

Lemma mesh_head a t d : nth 0 (mesh (a :: t)) d = a.
Proof.
  revert a. induction t as [|b t IH]; intros a; [reflexivity|].
  rewrite mesh_cons. destruct (qeqb a b) eqn:E.
  - apply qeqb_iff in E. subst b. apply IH.
  - reflexivity.
Qed.

Lemma span_indices_from_ge off kv : forall s, In s (span_indices_from off kv) -> (off <= s)%nat.
Proof.
  revert off. induction kv as [|a t IH]; intros off s H; [contradiction|].
  destruct t as [|b t']; [contradiction|].
  rewrite sif_cons in H. destruct (qeqb a b).
  - apply IH in H. lia.
  - destruct H as [H|H]; [lia|]. apply IH in H. lia.
Qed.

(* the k-th mesh cell is the k-th non-empty knot span: mesh[k] = kv[s_k], mesh[k+1] = kv[s_k+1] *)
Lemma mesh_span_l : forall kv off k,
  (k < length (span_indices_from off kv))%nat ->
  let s := (nth k (span_indices_from off kv) 0 - off)%nat in
  nth k (mesh kv) 0 = nth s kv 0 /\ nth (S k) (mesh kv) 0 = nth (S s) kv 0 /\
  nth s kv 0 <> nth (S s) kv 0 /\ (S s < length kv)%nat /\ (off <= nth k (span_indices_from off kv) 0)%nat.
Proof.
  induction kv as [|a t IH]; intros off k Hk; [cbn in Hk; lia|].
  destruct t as [|b t']; [cbn in Hk; lia|].
  cbn zeta. rewrite sif_cons in *. rewrite mesh_cons. destruct (qeqb a b) eqn:E.
  - specialize (IH (S off) k Hk). cbn zeta in IH. destruct IH as [H1 [H2 [H3 [H4 H5]]]].
    set (s' := nth k (span_indices_from (S off) (b :: t')) 0%nat) in *.
    replace (s' - off)%nat with (S (s' - S off)) by lia.
    cbn zeta. repeat split; try assumption; try lia.
    cbn [length] in *. lia.
  - destruct k as [|k].
    + cbn [nth]. rewrite Nat.sub_diag. cbn [nth]. rewrite mesh_head.
      apply qeqb_false_iff in E. repeat split; auto. cbn [length]. lia.
    + cbn [nth]. cbn [length] in Hk. apply Nat.succ_lt_mono in Hk.
      specialize (IH (S off) k Hk). cbn zeta in IH. destruct IH as [H1 [H2 [H3 [H4 H5]]]].
      set (s' := nth k (span_indices_from (S off) (b :: t')) 0%nat) in *.
      replace (s' - off)%nat with (S (s' - S off)) by lia.
      repeat split; try assumption; try lia.
      cbn [length] in *. lia.
Qed.

Lemma length_mesh_spans : forall kv off, kv <> [] -> length (mesh kv) = S (length (span_indices_from off kv)).
Proof.
  induction kv as [|a t IH]; intros off H; [contradiction|].
  destruct t as [|b t']; [reflexivity|].
  rewrite mesh_cons, sif_cons. destruct (qeqb a b).
  - apply IH. discriminate.
  - cbn [length]. f_equal. apply IH. discriminate.
Qed.

Lemma cells_nth : forall m k, (S k < length m)%nat -> nth k (cells m) (0, 0) = (nth k m 0, nth (S k) m 0).
Proof.
  induction m as [|a t IH]; intros k H; [cbn in H; lia|].
  destruct t as [|b t']; [cbn in H; lia|].
  change (cells (a :: b :: t')) with ((a, b) :: cells (b :: t')).
  destruct k as [|k]; [reflexivity|].
  cbn [nth]. rewrite IH; [reflexivity|]. cbn [length] in *. lia.
Qed.

(* order facts in Qc *)
Lemma Qcmult_pos (a b : Qc) : 0 < a -> 0 < b -> 0 < a * b.
Proof. intros Ha Hb. replace 0 with (0 * b) by ring. apply Qcmult_lt_compat_r; assumption. Qed.

Lemma half_pos : 0 < half.
Proof. unfold half. apply Qclt_alt. reflexivity. Qed.

Lemma half_half : half + half = 1.
Proof. apply Qc_is_canon. reflexivity. Qed.

Lemma two_neq0 : (1 + 1 : Qc) <> 0.
Proof. intro H. apply (f_equal (fun x : Qc => qeqb x 0)) in H. vm_compute in H. discriminate. Qed.
Lemma half_inv : half = / (1 + 1).
Proof. apply Qc_is_canon. reflexivity. Qed.

Lemma Qclt_sub_pos (a b : Qc) : a < b <-> 0 < b - a.
Proof. rewrite (Qclt_minus_iff a b). unfold Qcminus. reflexivity. Qed.

(* a Gauss node of the cell (a,b) lies strictly inside it when the reference node is in (-1,1) *)
Lemma node_inside (a b xi : Qc) : a < b -> - (1) < xi -> xi < 1 ->
  let x := half * (b - a) * xi + half * (a + b) in a < x /\ x < b.
Proof.
  intros Hab H1 H2 x. unfold x. split.
  - apply Qclt_sub_pos.
    replace (half * (b - a) * xi + half * (a + b) - a)
      with (half * (b - a) * (xi - - (1)) + ((half + half) - 1) * a) by ring.
    rewrite half_half. replace (half * (b - a) * (xi - - (1)) + (1 - 1) * a) with (half * (b - a) * (xi - - (1))) by ring.
    apply Qcmult_pos; [apply Qcmult_pos; [apply half_pos|apply Qclt_sub_pos in Hab; exact Hab]|].
    apply Qclt_sub_pos in H1. exact H1.
  - apply Qclt_sub_pos.
    replace (b - (half * (b - a) * xi + half * (a + b)))
      with (half * (b - a) * (1 - xi) + (1 - (half + half)) * b) by ring.
    rewrite half_half. replace (half * (b - a) * (1 - xi) + (1 - 1) * b) with (half * (b - a) * (1 - xi)) by ring.
    apply Qcmult_pos; [apply Qcmult_pos; [apply half_pos|apply Qclt_sub_pos in Hab; exact Hab]|].
    apply Qclt_sub_pos in H2. exact H2.
Qed.

(* every node of the rule on a cell inside the knot span s is evaluated in span s *)
Lemma findspan_in_cell kv p s a b ref x w :
  kv_ok kv p -> (S s < length kv)%nat -> kn kv s <= a -> a < b -> b <= kn kv (S s) ->
  (forall xw, In xw ref -> - (1) < fst xw /\ fst xw < 1) ->
  In (x, w) (gauss_cell ref a b) -> findspan kv p x = s.
Proof.
  intros Hok Hs Ha Hab Hb Href Hin.
  unfold gauss_cell in Hin. apply in_map_iff in Hin. destruct Hin as [[xi wi] [E Hi]].
  cbn [fst snd] in E. injection E as Ex Ew.
  destruct (Href _ Hi) as [H1 H2]. cbn [fst] in H1, H2.
  destruct (node_inside a b xi Hab H1 H2) as [L U].
  assert (Hx : half * (b - a) * xi + half * (a + b) = x) by (rewrite <- Ex; ring).
  rewrite Hx in L, U.
  pose proof (ok_sorted _ _ Hok) as Hsort.
  symmetry. apply findspan_unique_l; try assumption.
  - eapply Qcle_trans; [|apply Qclt_le_weak; eapply Qcle_lt_trans; [exact Ha|exact L]].
    apply Hsort; lia.
  - eapply Qclt_le_trans; [exact U|]. eapply Qcle_trans; [exact Hb|]. apply Hsort; lia.
  - apply Qclt_le_weak. eapply Qcle_lt_trans; [exact Ha|exact L].
  - eapply Qclt_le_trans; [exact U|exact Hb].
Qed.

(* first_active_correct: for every open knot vector (any multiplicities), every reference rule
   with nodes in (-1,1) and every mesh cell k, the index first_active(mesh_span_indices[k]) used
   by _create_coo_1d_from_kv is the first active function at EVERY quadrature node of that cell *)
Lemma first_active_correct_l kv p ref k x w :
  kv_ok kv p ->
  (forall xw, In xw ref -> - (1) < fst xw /\ fst xw < 1) ->
  (k < numspans kv)%nat ->
  In (x, w) (gauss_cell ref (nth k (mesh kv) 0) (nth (S k) (mesh kv) 0)) ->
  findspan kv p x = nth k (span_indices kv) 0%nat /\
  first_active_at kv p x = first_active p (nth k (span_indices kv) 0%nat).
Proof.
  intros Hok Href Hk Hin.
  assert (Hne : kv <> []). { intro E. subst kv. destruct Hok as [L _ _ _ _]. cbn in L. lia. }
  unfold numspans in Hk. rewrite (length_mesh_spans kv 0 Hne) in Hk. cbn [Nat.sub] in Hk. rewrite Nat.sub_0_r in Hk.
  destruct (mesh_span_l kv 0 k Hk) as [H1 [H2 [H3 [H4 _]]]]. cbn zeta in *.
  fold (span_indices kv) in *. rewrite Nat.sub_0_r in *.
  set (s := nth k (span_indices kv) 0%nat) in *.
  assert (Hf : findspan kv p x = s).
  { eapply findspan_in_cell; try eassumption.
    - rewrite H1. apply Qcle_refl.
    - rewrite H1, H2. pose proof (ok_sorted _ _ Hok s (S s) ltac:(lia) H4) as Hle.
      destruct (Qcle_lt_or_eq _ _ Hle) as [L|E]; [exact L|]. exfalso. apply H3. exact E.
    - rewrite H2. apply Qcle_refl. }
  split; [exact Hf|]. unfold first_active_at, first_active. rewrite Hf. reflexivity.
Qed.

(* two-space routine: on a quadrature cell that lies inside one knot span of kv, the first
   active function found at the FIRST node (q[0][::nqp]) is the one at every node of the cell *)
Lemma asym_first_active_l kv p s a b ref x w x0 w0 :
  kv_ok kv p -> (S s < length kv)%nat -> kn kv s <= a -> a < b -> b <= kn kv (S s) ->
  (forall xw, In xw ref -> - (1) < fst xw /\ fst xw < 1) ->
  In (x0, w0) (gauss_cell ref a b) -> In (x, w) (gauss_cell ref a b) ->
  first_active_at kv p x = first_active_at kv p x0 /\ first_active_at kv p x = (s - p)%nat.
Proof.
  intros Hok Hs Ha Hab Hb Href H0 H1. unfold first_active_at.
  rewrite (findspan_in_cell kv p s a b ref x w Hok Hs Ha Hab Hb Href H1).
  rewrite (findspan_in_cell kv p s a b ref x0 w0 Hok Hs Ha Hab Hb Href H0). split; reflexivity.
Qed.


(* the value of the global basis function j (dense collocation row) at a node of cell k is the
   element-local value the assembler places at offset j - first_active(span k), zero elsewhere *)
Lemma biform_1d_entry_partial_l kv p ref k x w :
  kv_ok kv p ->
  (forall xw, In xw ref -> - (1) < fst xw /\ fst xw < 1) ->
  (k < numspans kv)%nat ->
  In (x, w) (gauss_cell ref (nth k (mesh kv) 0) (nth (S k) (mesh kv) 0)) ->
  forall j d, (j < numdofs kv p)%nat ->
    nth j (colloc_row kv p d x) 0 =
    if ((first_active p (nth k (span_indices kv) 0%nat) <=? j) && (j <=? first_active p (nth k (span_indices kv) 0%nat) + p))%nat
    then nth (j - first_active p (nth k (span_indices kv) 0%nat)) (nth d (active_deriv kv p x d) []) 0
    else 0.
Proof.
  intros Hok Href Hk Hin j d Hj.
  destruct (first_active_correct_l kv p ref k x w Hok Href Hk Hin) as [_ Hfa].
  unfold colloc_row. rewrite Hfa.
  set (fa := first_active p (nth k (span_indices kv) 0%nat)).
  set (f := fun j0 : nat => if ((fa <=? j0) && (j0 <=? fa + p))%nat
                            then nth (j0 - fa) (nth d (active_deriv kv p x d) []) 0 else 0).
  rewrite (nth_indep _ 0 (f 0%nat)) by (rewrite map_length, seq_length; exact Hj).
  rewrite map_nth. rewrite seq_nth by exact Hj. reflexivity.
Qed.

(* layout of the Kronecker product *)
Lemma nth_flat_map_uniform {X Y} (f : X -> list Y) n (d : Y) (dx : X) : forall (l : list X) i j,
  (forall x, In x l -> length (f x) = n) -> (i < length l)%nat -> (j < n)%nat ->
  nth (i * n + j) (flat_map f l) d = nth j (f (nth i l dx)) d.
Proof.
  induction l as [|x l IH]; intros i j Hlen Hi Hj; [cbn in Hi; lia|].
  cbn [flat_map]. destruct i as [|i].
  - cbn [Nat.mul Nat.add nth]. apply app_nth1. rewrite Hlen by (left; reflexivity). exact Hj.
  - rewrite app_nth2; rewrite (Hlen x (or_introl eq_refl)); [|lia].
    replace (S i * n + j - n)%nat with (i * n + j)%nat by lia.
    cbn [nth]. apply IH; [intros y Hy; apply Hlen; right; exact Hy|cbn in Hi; lia|exact Hj].
Qed.

(* scipy.sparse.kron layout: entry (i1*nB + i2, j1*mB + j2) of kron(A,B) is A[i1,j1]*B[i2,j2] *)
Lemma kron_get_l (A B : list (list Qc)) mB i1 i2 j1 j2 :
  (forall rb, In rb B -> length rb = mB) ->
  (i1 < length A)%nat -> (i2 < length B)%nat -> (j1 < length (nth i1 A []))%nat -> (j2 < mB)%nat ->
  mget (kron A B) (i1 * length B + i2) (j1 * mB + j2) = mget A i1 j1 * mget B i2 j2.
Proof.
  intros HB Hi1 Hi2 Hj1 Hj2. unfold mget, kron.
  rewrite (nth_flat_map_uniform _ (length B) [] [] A i1 i2); [|intros; apply map_length|exact Hi1|exact Hi2].
  set (g := fun rb : list Qc => flat_map (fun a : Qc => map (fun b : Qc => a * b) rb) (nth i1 A [])).
  rewrite (nth_indep _ [] (g [])) by (rewrite map_length; exact Hi2).
  rewrite map_nth. unfold g.
  assert (Hrb : length (nth i2 B []) = mB) by (apply HB; apply nth_In; exact Hi2).
  rewrite (nth_flat_map_uniform _ mB 0 0 (nth i1 A []) j1 j2);
    [|intros; rewrite map_length; exact Hrb|exact Hj1|exact Hj2].
  set (a := nth j1 (nth i1 A []) 0).
  rewrite (nth_indep _ 0 (a * 0)) by (rewrite map_length, Hrb; exact Hj2).
  rewrite (map_nth (fun b : Qc => a * b)). reflexivity.
Qed.

(* ------------------------------------------------------------------ *)
(* Part C.  closed-form determinants and inverses *)

Lemma inv2_right_l a b c d : det2 a b c d <> 0 ->
  let Y := inv2 a b c d in
  a * mget Y 0 0 + b * mget Y 1 0 = 1 /\ a * mget Y 0 1 + b * mget Y 1 1 = 0 /\
  c * mget Y 0 0 + d * mget Y 1 0 = 0 /\ c * mget Y 0 1 + d * mget Y 1 1 = 1.
Proof. unfold det2. intros H. cbn. repeat split; field; exact H. Qed.

Lemma inv2_left_l a b c d : det2 a b c d <> 0 ->
  let Y := inv2 a b c d in
  mget Y 0 0 * a + mget Y 0 1 * c = 1 /\ mget Y 0 0 * b + mget Y 0 1 * d = 0 /\
  mget Y 1 0 * a + mget Y 1 1 * c = 0 /\ mget Y 1 0 * b + mget Y 1 1 * d = 1.
Proof. unfold det2. intros H. cbn. repeat split; field; exact H. Qed.

Lemma det2_mul_l a b c d a' b' c' d' :
  det2 (a * a' + b * c') (a * b' + b * d') (c * a' + d * c') (c * b' + d * d') = det2 a b c d * det2 a' b' c' d'.
Proof. unfold det2. ring. Qed.

Section Inv3.
  Variables x00 x01 x02 x10 x11 x12 x20 x21 x22 : Qc.
  Let X := [[x00; x01; x02]; [x10; x11; x12]; [x20; x21; x22]].
  Let Y := inv3 x00 x01 x02 x10 x11 x12 x20 x21 x22.
  Definition delta (i j : nat) : Qc := if Nat.eqb i j then 1 else 0.
  Definition mm3 (A B : list (list Qc)) (i j : nat) : Qc :=
    mget A i 0 * mget B 0 j + mget A i 1 * mget B 1 j + mget A i 2 * mget B 2 j.

  Lemma inv3_right_l : det3 x00 x01 x02 x10 x11 x12 x20 x21 x22 <> 0 ->
    forall i j, (i < 3)%nat -> (j < 3)%nat -> mm3 X Y i j = delta i j.
  Proof.
    intros H i j Hi Hj. unfold det3 in H.
    destruct i as [|[|[|i]]]; try lia; destruct j as [|[|[|j]]]; try lia;
      unfold mm3, X, Y, inv3, det3, delta, mget; cbn [nth Nat.eqb]; field; exact H.
  Qed.

  Lemma inv3_left_l : det3 x00 x01 x02 x10 x11 x12 x20 x21 x22 <> 0 ->
    forall i j, (i < 3)%nat -> (j < 3)%nat -> mm3 Y X i j = delta i j.
  Proof.
    intros H i j Hi Hj. unfold det3 in H.
    destruct i as [|[|[|i]]]; try lia; destruct j as [|[|[|j]]]; try lia;
      unfold mm3, X, Y, inv3, det3, delta, mget; cbn [nth Nat.eqb]; field; exact H.
  Qed.
End Inv3.

Lemma det3_mul_l a00 a01 a02 a10 a11 a12 a20 a21 a22 b00 b01 b02 b10 b11 b12 b20 b21 b22 :
  det3 (a00*b00+a01*b10+a02*b20) (a00*b01+a01*b11+a02*b21) (a00*b02+a01*b12+a02*b22)
       (a10*b00+a11*b10+a12*b20) (a10*b01+a11*b11+a12*b21) (a10*b02+a11*b12+a12*b22)
       (a20*b00+a21*b10+a22*b20) (a20*b01+a21*b11+a22*b21) (a20*b02+a21*b12+a22*b22)
  = det3 a00 a01 a02 a10 a11 a12 a20 a21 a22 * det3 b00 b01 b02 b10 b11 b12 b20 b21 b22.
Proof. unfold det3. ring. Qed.

Lemma det3_triangular_l a b c d e f : det3 a b c 0 d e 0 0 f = a * d * f.
Proof. unfold det3. ring. Qed.
