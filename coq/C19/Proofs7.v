(* C19 -- multiplicities of the knots of make_knots, by counting. *)
From Coq Require Import QArith Qcanon ZArith List Arith Bool Lia Lqa.
From Verif.lib Require Import Bsp NpCore NpQ.
From Verif.C19 Require Import Model Proofs Proofs2.
Import ListNotations.
Open Scope Qc_scope.

Section Count.
Context {A : Type} (dec : forall x y : A, {x = y} + {x <> y}).

Lemma expand_In (l : list (A * nat)) x : In x (expand l) -> In x (map fst l).
Proof.
  induction l as [|[y j] t IH]; [intros []|].
  unfold expand. cbn [flat_map fst snd map]. fold (expand t). intros H.
  apply in_app_or in H. destruct H as [H|H].
  - left. symmetry. eapply repeat_spec. exact H.
  - right. apply IH. exact H.
Qed.

(* with distinct values, the value x of the run (x, k) occurs exactly k times *)
Lemma count_expand (l : list (A * nat)) x k : NoDup (map fst l) -> In (x, k) l ->
  count_occ dec (expand l) x = k.
Proof.
  induction l as [|[y j] t IH]; intros Hnd Hin; [destruct Hin|].
  cbn [map fst] in Hnd. apply NoDup_cons_iff in Hnd. destruct Hnd as [Hny Hnd].
  unfold expand. cbn [flat_map fst snd]. fold (expand t). rewrite count_occ_app.
  destruct Hin as [E|Hin].
  - injection E as -> ->. rewrite count_occ_repeat_eq by reflexivity.
    rewrite (proj1 (count_occ_not_In dec (expand t) x)); [lia|].
    intros H. apply Hny. apply expand_In. exact H.
  - assert (Hne : x <> y).
    { intros <-. apply Hny. change x with (fst (x, k)). apply in_map. exact Hin. }
    rewrite count_occ_repeat_neq by exact Hne. rewrite IH by assumption. reflexivity.
Qed.
End Count.

Lemma strict_NoDup l : adjb qltb l = true -> NoDup l.
Proof.
  induction l as [|a t IH]; intros H; [constructor|].
  constructor.
  - intros Hin. apply (lt_irrefl_q a). apply (strict_head_lt a t H a Hin).
  - apply IH. eapply strict_tail. exact H.
Qed.

(* break point j of make_knots occurs p+1 times for j = 0 and j = n, mult times otherwise *)
Lemma make_knots_multiplicity_l p a b n mult j : a < b -> (1 <= n)%nat -> (1 <= mult)%nat -> (j <= n)%nat ->
  count_occ Qc_eq_dec (make_knots p a b n mult) (a + natq j * ((b - a) / natq n)) =
  if (Nat.eqb j 0 || Nat.eqb j n)%bool then (p + 1)%nat else mult.
Proof.
  intros Hab Hn Hm Hj.
  rewrite make_knots_layout, layout_expand.
  set (L := linspace_q a b (n + 1)). set (inner := sl_1_m1 L).
  set (runs := (a, (p + 1)%nat) :: map (fun x => (x, mult)) inner ++ [(b, (p + 1)%nat)]).
  assert (Hv : map fst runs = L).
  { unfold runs. rewrite runs_values. symmetry. apply linspace_decompose. exact Hn. }
  assert (Hnd : NoDup (map fst runs)).
  { rewrite Hv. apply strict_NoDup. apply (adjb_of_nth _ _ 0). intros i Hi. unfold L in *.
    rewrite linspace_length in Hi. apply NpQ.qltb_iff. apply linspace_lt; [exact Hab|lia|lia]. }
  assert (Hx : a + natq j * ((b - a) / natq n) = nth j L 0).
  { unfold L. rewrite nth_linspace by lia. replace (n + 1 - 1)%nat with n by lia. reflexivity. }
  apply count_expand; [exact Hnd|].
  destruct (Nat.eqb_spec j 0) as [->|Hj0]; cbn [orb].
  - left. f_equal. rewrite natq_0. ring.
  - right. apply in_or_app. destruct (Nat.eqb_spec j n) as [->|Hjn].
    + right. left. f_equal. field. apply natq_neq0. lia.
    + left. apply in_map_iff. exists (nth j L 0). split; [rewrite Hx; reflexivity|].
      unfold inner. replace j with (S (j - 1)) by lia.
      rewrite <- (nth_sl_1_m1 L (j - 1) 0) by (unfold L; rewrite linspace_length; lia).
      apply nth_In. rewrite sl_1_m1_length. unfold L. rewrite linspace_length. lia.
Qed.
