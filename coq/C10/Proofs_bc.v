(* C10 -- compute_dirichlet_bcs for an arbitrary list of conditions; compute_dirichlet_bc with its
   values: blocked arrangement of vector-valued coefficients, _drop_nans. *)
From Coq Require Import List Arith Bool ZArith Lia Sorted.
From Verif.lib Require Import Slice.
From Verif.C10 Require Import Model Proofs Proofs_mp Model_bc.
Import ListNotations.
Local Open Scope nat_scope.

(* ------------------------------------------------------------------------- *)
(* A. any list of conditions                                                  *)
(* ------------------------------------------------------------------------- *)

Definition cond_ok (shape : list nat) (c : bdspec * nat) : Prop :=
  exists ax side, parse_bdspec (fst c) (length shape) = Some (ax, side) /\ 0 < nth ax shape 0.

Lemma dirichlet_bcs_list_spec shape conds : Forall (cond_ok shape) conds ->
  exists l, dirichlet_bcs_indices shape conds = Some l /\ StronglySorted lt l /\ NoDup l /\
    (forall r, In r l <->
       exists b nc ax side mi, In (b, nc) conds /\ parse_bdspec b (length shape) = Some (ax, side) /\
         on_face shape ax side mi /\
         (if Nat.eqb nc 0 then r = ravel shape mi
          else exists j, j < nc /\ r = ravel shape mi + j * prod_list shape)).
Proof.
  intros Hok. rewrite Forall_forall in Hok. unfold dirichlet_bcs_indices. rewrite !map_map.
  replace (forallb _ _) with true.
  - eexists. split; [reflexivity|]. split; [apply unique_sorted_sorted|]. split; [apply unique_sorted_NoDup|].
    intros r. rewrite unique_sorted_In, in_concat. split.
    + intros [l [Hl Hr]]. apply in_map_iff in Hl. destruct Hl as [[b nc] [<- Hc]].
      destruct (Hok _ Hc) as [ax [side [Hp Hn]]]. cbn [fst snd] in *.
      destruct (dirichlet_indices_spec shape b nc ax side Hp Hn) as [l [E Hin]].
      rewrite E in Hr. apply Hin in Hr. destruct Hr as [mi [Hf Hr]]. exists b, nc, ax, side, mi. auto.
    + intros [b [nc [ax [side [mi [Hc [Hp [Hf Hr]]]]]]]].
      destruct (Hok _ Hc) as [ax' [side' [Hp' Hn]]]. cbn [fst] in Hp'. rewrite Hp in Hp'. injection Hp' as <- <-.
      destruct (dirichlet_indices_spec shape b nc ax side Hp Hn) as [l [E Hin]].
      exists l. split.
      * apply in_map_iff. exists (b, nc). cbn [fst snd]. rewrite E. auto.
      * apply Hin. exists mi. auto.
  - symmetry. apply forallb_forall. intros o Ho. apply in_map_iff in Ho. destruct Ho as [[b nc] [<- Hc]].
    destruct (Hok _ Hc) as [ax [side [Hp Hn]]]. cbn [fst snd] in *.
    destruct (dirichlet_indices_spec shape b nc ax side Hp Hn) as [l [E _]]. rewrite E. reflexivity.
Qed.

(* an invalid boundary specification anywhere in the list makes the whole call fail (ValueError) *)
Lemma dirichlet_bcs_list_invalid shape conds b nc :
  In (b, nc) conds -> parse_bdspec b (length shape) = None -> dirichlet_bcs_indices shape conds = None.
Proof.
  intros Hc Hp. unfold dirichlet_bcs_indices.
  replace (forallb _ _) with false; [reflexivity|].
  symmetry. apply not_true_iff_false. rewrite forallb_forall. intros H.
  specialize (H (dirichlet_indices shape b nc)).
  assert (E : dirichlet_indices shape b nc = None).
  { unfold dirichlet_indices, boundary_slice. rewrite Hp. reflexivity. }
  rewrite E in H. discriminate H. apply in_map_iff. exists (b, nc). auto.
Qed.

(* ------------------------------------------------------------------------- *)
(* B. values: generic list lemmas                                             *)
(* ------------------------------------------------------------------------- *)

Lemma combine_app_eq {A B} (a a' : list A) (b b' : list B) :
  length a = length b -> combine (a ++ a') (b ++ b') = combine a b ++ combine a' b'.
Proof.
  revert b. induction a as [|x a IH]; intros [|y b] H; simpl in *; try discriminate; auto.
  rewrite IH by lia. reflexivity.
Qed.

Lemma combine_concat {A B} (parts : list (list A * list B)) :
  Forall (fun p => length (fst p) = length (snd p)) parts ->
  combine (concat (map fst parts)) (concat (map snd parts)) = concat (map (fun p => combine (fst p) (snd p)) parts).
Proof.
  induction 1 as [|p parts Hp _ IH]; simpl; auto.
  rewrite combine_app_eq by exact Hp. rewrite IH. reflexivity.
Qed.

Lemma combine_map_same {A B C} (f : A -> B) (g : A -> C) l :
  combine (map f l) (map g l) = map (fun x => (f x, g x)) l.
Proof. induction l as [|x l IH]; simpl; [|rewrite IH]; reflexivity. Qed.

Lemma list_as_map_nth {A} (d : A) (l : list A) : l = map (fun k => nth k l d) (seq 0 (length l)).
Proof.
  apply (nth_ext _ _ d d).
  - rewrite map_length, seq_length. reflexivity.
  - intros n Hn. rewrite (nth_map_lt (fun k => nth k l d) _ _ d 0) by (rewrite seq_length; exact Hn).
    rewrite seq_nth by exact Hn. reflexivity.
Qed.

Lemma in_combine_nth {B} (dn : nat) (db : B) (a : list nat) (b : list B) r v :
  In (r, v) (combine a b) <-> exists t, t < length a /\ t < length b /\ nth t a dn = r /\ nth t b db = v.
Proof.
  revert b. induction a as [|x a IH]; intros [|y b]; simpl.
  - split; [intros []|intros [t [H _]]; lia].
  - split; [intros []|intros [t [H _]]; lia].
  - split; [intros []|intros [t [_ [H _]]]; lia].
  - rewrite IH. split.
    + intros [H|[t [H1 [H2 [H3 H4]]]]].
      * injection H as <- <-. exists 0. repeat split; lia.
      * exists (S t). repeat split; auto; lia.
    + intros [[|t] [H1 [H2 [H3 H4]]]].
      * left. subst. reflexivity.
      * right. exists t. repeat split; auto; lia.
Qed.

Section Values.
Variable X : Type.

(* combine_bcs on duplicate-free indices only sorts: the (index, value) pairs are the same *)
Lemma combine_flat_nodup (d : X) indices (values : list X) :
  NoDup indices -> length values = length indices ->
  let res := combine_flat X d indices values in
  forall r v, In (r, v) (combine (fst res) (snd res)) <-> In (r, v) (combine indices values).
Proof.
  intros Hnd Hl res r v.
  destruct (combine_flat_spec X d indices values) as [_ [_ [Hin [Hlen Hval]]]]. fold res in Hin, Hlen, Hval.
  rewrite (in_combine_nth 0 d), (in_combine_nth 0 d). split.
  - intros [t [H1 [H2 [H3 H4]]]]. destruct (Hval t H1) as [K1 [K2 [_ K4]]]. cbv zeta in *.
    rewrite H3 in *. exists (first_pos r indices). repeat split; auto; try lia. rewrite <- K4. exact H4.
  - intros [k [H1 [H2 [H3 H4]]]].
    assert (Hr : In r (fst res)) by (apply Hin; rewrite <- H3; apply nth_In, H1).
    destruct (In_nth _ _ 0 Hr) as [t [Ht Et]]. exists t. repeat split; auto; try lia.
    destruct (Hval t Ht) as [K1 [K2 [_ K4]]]. cbv zeta in *. rewrite Et in *.
    assert (first_pos r indices = k).
    { apply (proj1 (NoDup_nth indices 0) Hnd); auto. rewrite K2, H3. reflexivity. }
    rewrite K4. subst k. exact H4.
Qed.

Lemma drop_nans_length idx vals : length (fst (drop_nans X idx vals)) = length (snd (drop_nans X idx vals)).
Proof.
  revert vals. induction idx as [|i idx IH]; intros [|[v|] vals]; simpl; auto.
  specialize (IH vals). destruct (drop_nans X idx vals). simpl in *. lia.
Qed.

(* _drop_nans keeps exactly the pairs whose value is not nan, in the same order *)
Lemma drop_nans_pairs idx vals r v :
  In (r, v) (combine (fst (drop_nans X idx vals)) (snd (drop_nans X idx vals))) <-> In (r, Some v) (combine idx vals).
Proof.
  revert vals. induction idx as [|i idx IH]; intros [|[w|] vals]; simpl; try tauto.
  - specialize (IH vals). destruct (drop_nans X idx vals) as [is vs]. simpl in *. rewrite IH.
    split; intros [H|H]; auto; left; congruence.
  - rewrite IH. split; [auto|]. intros [H|H]; [discriminate|exact H].
Qed.

Lemma drop_nans_incl idx vals x : In x (fst (drop_nans X idx vals)) -> In x idx.
Proof.
  revert vals. induction idx as [|i idx IH]; intros [|[w|] vals]; simpl; try tauto.
  - specialize (IH vals). destruct (drop_nans X idx vals) as [is vs]. simpl in *. intros [H|H]; auto.
  - intros H. right. eapply IH, H.
Qed.

Lemma drop_nans_sorted idx vals : StronglySorted lt idx -> StronglySorted lt (fst (drop_nans X idx vals)).
Proof.
  revert vals. induction idx as [|i idx IH]; intros [|[w|] vals] Hs; simpl; try constructor;
    inversion Hs as [|? ? Hs' Hall]; subst.
  - pose proof (drop_nans_incl idx vals) as Hi. specialize (IH vals Hs').
    destruct (drop_nans X idx vals) as [is vs]. simpl in *. constructor; auto.
    rewrite Forall_forall in *. intros x Hx. apply Hall, Hi, Hx.
  - apply IH, Hs'.
Qed.

End Values.

(* ------------------------------------------------------------------------- *)
(* B. compute_dirichlet_bc with values                                        *)
(* ------------------------------------------------------------------------- *)

Lemma prodl_prod_list l : prodl l = prod_list l.
Proof.
  unfold prodl, prod_list. symmetry. apply fold_symmetric; intros; lia.
Qed.

Lemma ravel_lt_prod shape mi : valid_mi shape mi -> ravel shape mi < prod_list shape.
Proof.
  intros H. rewrite <- prodl_prod_list. unfold ravel. apply (ravel_aux_acc shape mi 0 H).
Qed.

Lemma drop_nans_NoDup {X} idx (vals : list (option X)) : NoDup idx -> NoDup (fst (drop_nans X idx vals)).
Proof.
  revert vals. induction idx as [|i idx IH]; intros [|[w|] vals] Hn; simpl; try constructor;
    inversion Hn as [|? ? Hni Hn']; subst.
  - pose proof (drop_nans_incl X idx vals) as Hi. specialize (IH vals Hn').
    destruct (drop_nans X idx vals) as [is vs]. simpl in *. constructor; auto.
  - apply IH, Hn'.
Qed.

Section BCValues.
Variable X : Type.

(* scalar data: the face dofs whose coefficient is not nan, each once, each with ITS coefficient *)
Lemma dirichlet_bc_scalar_spec shape b (coef : nat -> option X) ax side :
  parse_bdspec b (length shape) = Some (ax, side) -> 0 < nth ax shape 0 ->
  exists bd idx vals, boundary_slice shape b [] = Some bd /\
    dirichlet_bc_scalar X shape b coef = Some (idx, vals) /\
    length idx = length vals /\ NoDup idx /\
    (forall r v, In (r, v) (combine idx vals) <-> exists k, k < length bd /\ r = nth k bd 0 /\ coef k = Some v).
Proof.
  intros Hp Hn. destruct (boundary_slice_face_l shape b [] ax side Hp Hn) as [bd [E [Hnd _]]].
  unfold dirichlet_bc_scalar. rewrite E.
  destruct (drop_nans X bd (map coef (seq 0 (length bd)))) as [idx vals] eqn:D.
  exists bd, idx, vals. split; [reflexivity|]. split; [reflexivity|].
  pose proof (drop_nans_length X bd (map coef (seq 0 (length bd)))) as L.
  pose proof (drop_nans_NoDup bd (map coef (seq 0 (length bd))) Hnd) as N.
  pose proof (drop_nans_pairs X bd (map coef (seq 0 (length bd)))) as P.
  rewrite D in L, N, P. cbn [fst snd] in *. split; [exact L|]. split; [exact N|].
  intros r v. rewrite P.
  rewrite (list_as_map_nth 0 bd) at 1. rewrite combine_map_same, in_map_iff. split.
  - intros [k [Ek Hk]]. injection Ek as <- Ev. apply in_seq in Hk. exists k. repeat split; auto; lia.
  - intros [k [Hk [-> Ev]]]. exists k. rewrite Ev. split; [reflexivity|apply in_seq; lia].
Qed.

Lemma vec_indices_NoDup NN bd nc : NoDup bd -> (forall i, In i bd -> i < NN) ->
  NoDup (concat (map (fun j => map (fun i => i + j * NN) bd) (seq 0 nc))).
Proof.
  intros Hnd Hlt. rewrite <- flat_map_concat_map. apply NoDup_flat_map_disjoint.
  - apply seq_NoDup.
  - intros j _. apply NoDup_map_inj_in; [exact Hnd|]. intros x y _ _ H. lia.
  - intros j j' r _ _ H1 H2. apply in_map_iff in H1, H2.
    destruct H1 as [i [<- Hi]]. destruct H2 as [i' [E Hi']].
    symmetry in E. destruct (blocked_disjoint NN bd j j' i i' Hlt Hi Hi' E). assumption.
Qed.

(* vector data, blocked numbering: component j of the k-th face dof sits at index bd[k] + j*NN and
   carries coefficient coef k j; indices strictly increasing; nan coefficients dropped *)
Lemma dirichlet_bc_vector_spec shape b nc (coef : nat -> nat -> option X) ax side :
  parse_bdspec b (length shape) = Some (ax, side) -> 0 < nth ax shape 0 ->
  exists bd idx vals, boundary_slice shape b [] = Some bd /\
    dirichlet_bc_vector X shape b nc coef = Some (idx, vals) /\
    length idx = length vals /\ StronglySorted lt idx /\
    (forall r v, In (r, v) (combine idx vals) <->
       exists k j, k < length bd /\ j < nc /\ r = nth k bd 0 + j * prod_list shape /\ coef k j = Some v).
Proof.
  intros Hp Hn. destruct (boundary_slice_face_l shape b [] ax side Hp Hn) as [bd [E [Hnd Hin]]].
  assert (Hlt : forall i, In i bd -> i < prod_list shape).
  { intros i Hi. apply Hin in Hi. destruct Hi as [mi [[Hv _] ->]]. apply ravel_lt_prod, Hv. }
  unfold dirichlet_bc_vector. rewrite E. set (NN := prod_list shape) in *.
  set (parts := vec_parts X NN bd nc coef).
  set (I := concat (map fst parts)). set (V := concat (map snd parts)).
  change (combine_bcs (option X) None parts) with (combine_flat (option X) None I V).
  assert (HI : I = concat (map (fun j => map (fun i => i + j * NN) bd) (seq 0 nc))).
  { unfold I, parts, vec_parts. rewrite map_map. reflexivity. }
  assert (Hlens : Forall (fun p : list nat * list (option X) => length (fst p) = length (snd p)) parts).
  { apply Forall_forall. intros p Hpi. apply in_map_iff in Hpi. destruct Hpi as [j [<- _]].
    cbn [fst snd]. rewrite !map_length, seq_length. reflexivity. }
  assert (HIV : length V = length I).
  { unfold I, V. clear - Hlens. induction Hlens as [|p ps Hq _ IH]; simpl; auto. rewrite !app_length, IH. lia. }
  assert (HndI : NoDup I) by (rewrite HI; apply vec_indices_NoDup; assumption).
  destruct (combine_flat_spec (option X) None I V) as [Hs [_ [_ [Hlen _]]]].
  pose proof (combine_flat_nodup (option X) None I V HndI HIV) as Hpairs. cbv zeta in Hpairs.
  set (r0 := combine_flat (option X) None I V) in *.
  destruct (drop_nans X (fst r0) (snd r0)) as [idx vals] eqn:D.
  exists bd, idx, vals. split; [reflexivity|]. split; [reflexivity|].
  pose proof (drop_nans_length X (fst r0) (snd r0)) as L.
  pose proof (drop_nans_sorted X (fst r0) (snd r0) Hs) as S.
  pose proof (drop_nans_pairs X (fst r0) (snd r0)) as P.
  rewrite D in L, S, P. cbn [fst snd] in L, S, P. split; [exact L|]. split; [exact S|].
  assert (EQ : forall j, combine (map (fun i => i + j * NN) bd) (map (fun k => coef k j) (seq 0 (length bd)))
                         = map (fun k => (nth k bd 0 + j * NN, coef k j)) (seq 0 (length bd))).
  { intros j0. set (n := length bd). rewrite (list_as_map_nth 0 bd) at 1. subst n.
    rewrite map_map, combine_map_same. reflexivity. }
  intros r v. rewrite P, Hpairs. unfold I, V. rewrite combine_concat by exact Hlens.
  rewrite in_concat. split.
  - intros [l [Hl Hrv]]. apply in_map_iff in Hl. destruct Hl as [p [<- Hpi]].
    apply in_map_iff in Hpi. destruct Hpi as [j [<- Hj]]. apply in_seq in Hj. cbn [fst snd] in Hrv.
    rewrite EQ in Hrv.
    apply in_map_iff in Hrv. destruct Hrv as [k [Ek Hk]]. injection Ek as <- Ev. apply in_seq in Hk.
    exists k, j. repeat split; auto; lia.
  - intros [k [j [Hk [Hj [-> Ev]]]]].
    exists (combine (map (fun i => i + j * NN) bd) (map (fun k => coef k j) (seq 0 (length bd)))). split.
    + apply in_map_iff. exists (map (fun i => i + j * NN) bd, map (fun k => coef k j) (seq 0 (length bd))).
      split; [reflexivity|]. apply in_map_iff. exists j. split; [reflexivity|apply in_seq; lia].
    + rewrite EQ. apply in_map_iff.
      exists k. rewrite Ev. split; [reflexivity|apply in_seq; lia].
Qed.

End BCValues.
