"""Implementation driver for C04: runs refinement histories on the real pyiga.hierarchical.HSpace.

stdin: {'cases': [case, ...]}; a case is
  {'cfg': {'axes': [{'p':p, 'breaks':[...], 'mults':[...]}, ...], 'disparity': int|None, 'truncate': bool},
   'mode': 'history', 'ops': [op, ...]}                       explicit history
  {'cfg':..., 'mode': 'tree', 'depth': n, 'max_nodes': N, 'seed': s}   all non-empty subsets of the active cells, per call
  {'cfg':..., 'mode': 'random', 'seed': s, 'nops': n, 'cap': c}  seeded random history (marks depend on the state)
op:  {'kind':'refine', 'marks': [[lv, [[i,..],..]], ...], 'container': 'set'|'list'|'tuple', 'trunc': bool}
     {'kind':'region', 'lv': lv, 'pred': {'type':'halfspace','n':[..],'b':[num,den]} | {'type':'ball','c':[..],'r2':[num,den]}}
stdout (last line): {'results': [[node, ...] per case]}, node = {'ops': [...], 'obs': [obs or None per op]}.
"""
import copy
import itertools
import json
import os
import random
import sys

import numpy as np


def errclass(e):
    for c in (TypeError, ValueError, AssertionError, IndexError, KeyError, NotImplementedError, RecursionError):
        if isinstance(e, c):
            return c.__name__
    return 'Other:' + type(e).__name__


def mk_space(cfg):
    from pyiga import bspline, hierarchical
    kvs = []
    for ax in cfg['axes']:
        kv = np.repeat(np.array(ax['breaks'], dtype=float), ax['mults'])
        kvs.append(bspline.KnotVector(kv, ax['p']))
    d = cfg['disparity']
    return hierarchical.HSpace(tuple(kvs), truncate=cfg['truncate'], disparity=(np.inf if d is None else d))


def tl(s):
    return sorted([int(i) for i in t] for t in s)


def mk_pred(pred):
    if pred['type'] == 'halfspace':
        n, b = pred['n'], pred['b'][0] / pred['b'][1]
        return lambda *x: sum(ni * xi for ni, xi in zip(n, x)) < b
    if pred['type'] == 'box':
        lo, hi = pred['lo'], pred['hi']
        return lambda *x: all(l <= xi < h for l, xi, h in zip(lo, x, hi))
    c, r2 = pred['c'], pred['r2'][0] / pred['r2'][1]
    return lambda *x: sum((xi - ci) ** 2 for ci, xi in zip(c, x)) < r2


LIVE = ['live', 'frozenset', 'keys']


def state_sig(h):
    return [[tl(h.hmesh.active[l]), tl(h.hmesh.deactivated[l]), tl(h.actfun[l]), tl(h.deactfun[l])]
            for l in range(h.numlevels)]


def apply_op(hs, op):
    """Returns (status, returned marks or None).  For the aliasing container kinds (whole-level marks only:
    'live' = the very set object returned by hs.active_cells(lv), 'frozenset' / 'keys' = other iterables) the same
    call is also made on a copy of the space with plain set copies of the marks; the comparison of the two
    resulting states is left in hs._c04_alias for observe()."""
    hs._c04_alias = None
    if op['kind'] == 'refine' and op['container'] in LIVE:
        twin = hs.copy()
        twin._c04_alias = None
        st2, ret2 = apply_op(twin, dict(op, container='set'))
        marked = {}
        for lv, cells in op['marks']:
            lv = int(lv)
            cs = set(tuple(c) for c in cells)
            if lv >= hs.numlevels or cs != set(hs.hmesh.active[lv]):
                raise RuntimeError('harness error: aliasing marks must be all active cells of a level')
            live = hs.active_cells(lv)
            marked[lv] = live if op['container'] == 'live' else (
                frozenset(live) if op['container'] == 'frozenset' else dict.fromkeys(sorted(live)).keys())
        try:
            ret = hs.refine(marked, truncate=True) if op.get('trunc') else hs.refine(marked)
            status, ret = 'Ok', {int(lv): tl(set(tuple(c) for c in cells)) for lv, cells in ret.items() if len(cells)}
        except Exception as e:  # noqa
            status, ret = errclass(e) + ': ' + str(e)[:120], None
        same = bool(status == st2 and ret == ret2 and state_sig(hs) == state_sig(twin))
        hs._c04_alias = {'same': same, 'twin_status': st2, 'twin_levels': None if same else state_sig(twin)}
        return status, ret
    try:
        if op['kind'] == 'refine':
            conv = {'set': lambda l: set(tuple(c) for c in l), 'list': lambda l: [tuple(c) for c in l],
                    'tuple': lambda l: tuple(tuple(c) for c in l)}[op['container']]
            marked = {int(lv): conv(cells) for lv, cells in op['marks']}
            if op.get('trunc'):
                ret = hs.refine(marked, truncate=True)
            else:
                ret = hs.refine(marked)
        else:
            ret = hs.refine_region(op['lv'], mk_pred(op['pred']))
        return 'Ok', {int(lv): tl(set(tuple(c) for c in cells)) for lv, cells in ret.items() if len(cells)}
    except Exception as e:  # noqa
        return errclass(e) + ': ' + str(e)[:120], None


def matrix_numbers(hs, full):
    """Numbers for the rational-matrix conjuncts (evaluated by the harness against stated bounds)."""
    out = {}
    nd = hs.numdofs
    nfine = int(hs.mesh(hs.numlevels - 1).numbf)
    if nd * nfine > (4e6 if full else 4e5):
        return None
    Rh = hs.represent_fine(truncate=False).toarray()
    Rt = hs.represent_fine(truncate=True).toarray()
    out['shape_ok'] = bool(Rh.shape == (nfine, nd) and Rt.shape == (nfine, nd))
    out['thb_rowsum_dev'] = float(np.abs(Rt.sum(axis=1) - 1.0).max())
    out['thb_min'] = float(Rt.min())
    out['hb_min'] = float(Rh.min())
    if nd <= 400:
        out['rank_hb'] = int(np.linalg.matrix_rank(Rh))
        out['rank_thb'] = int(np.linalg.matrix_rank(Rt))
    T1 = hs.thb_to_hb()
    T2 = hs.hb_to_thb()
    T1 = T1.toarray() if hasattr(T1, 'toarray') else np.asarray(T1)
    T2 = T2.toarray() if hasattr(T2, 'toarray') else np.asarray(T2)
    out['t_shape_ok'] = bool(T1.shape == (nd, nd) and T2.shape == (nd, nd))
    I = np.eye(nd)
    out['inv_dev'] = float(max(np.abs(T1 @ T2 - I).max(), np.abs(T2 @ T1 - I).max()))
    out['same_space_dev'] = float(max(np.abs(Rh @ T1 - Rt).max(), np.abs(Rt @ T2 - Rh).max()))
    out['nd'] = nd
    return out


def boundary_obs(hs, qrng):
    """Dirichlet index sets, smoothing index lists and the boundary restriction for seeded
    bdspecs (set on a copy of the space, as the constructor would)."""
    dim = hs.dim
    L = hs.numlevels
    sides = [(ax, s) for ax in range(dim) for s in (0, 1)]
    k = qrng.choice([0, 1, 1, 2, 2, len(sides)])
    bds = sorted(qrng.sample(sides, min(k, len(sides))))
    bd = qrng.choice(sides)
    out = {'bds': [list(b) for b in bds], 'bd': list(bd), 'with_boundary': dim >= 2}
    h = hs.copy()
    h.bdspecs = [tuple(b) for b in bds] if bds else None
    h._clear_cache()

    def il(x):
        return [[int(i) for i in t] for t in x]

    def guard(name, fn):
        try:
            out[name] = fn()
        except Exception as e:  # noqa
            out[name] = 'err:' + errclass(e) + ':' + str(e)[:80]
    guard('index_dirichlet', lambda: [[tl(h.index_dirichlet[lv][i]) for i in range(L)] for lv in range(L)])
    guard('new', lambda: [[il(x) for x in lvl] for lvl in h.new_indices()])
    guard('cell_supp', lambda: [[il(x) for x in lvl] for lvl in h.cell_supp_indices()])
    guard('cell_supp_all', lambda: [[il(x) for x in lvl] for lvl in h.cell_supp_indices(remove_dirichlet=False)])
    guard('global', lambda: [[il(x) for x in lvl] for lvl in h.global_indices()])
    guard('smooth_new', lambda: [[int(i) for i in a] for a in h.indices_to_smooth('new')])
    guard('smooth_cell_supp', lambda: [[int(i) for i in a] for a in h.indices_to_smooth('cell_supp')])
    guard('dirichlet_dofs', lambda: [[int(i) for i in h.dirichlet_dofs(lv)] for lv in range(L)])
    guard('non_dirichlet_dofs', lambda: [int(i) for i in h.non_dirichlet_dofs()])
    if dim >= 2:
        def bdry():
            bs, mapping = hs.boundary(tuple(bd))
            return {'L': int(bs.numlevels),
                    'levels': [[tl(bs.hmesh.active[l]), tl(bs.hmesh.deactivated[l]), tl(bs.actfun[l]), tl(bs.deactfun[l])]
                               for l in range(bs.numlevels)],
                    'numspans': [[int(n) for n in m.numspans] for m in bs.hmesh.meshes],
                    'numdofs': [[int(n) for n in m.numdofs] for m in bs.hmesh.meshes],
                    'mapping': [int(i) for i in mapping],
                    'truncate_disparity_kept': bool(bs.truncate == hs.truncate and bs.disparity == hs.disparity)}
        guard('boundary', bdry)
    return out


def support_obs(hs, qrng):
    """Hierarchical support queries with arguments on several levels at once: compute_supports of all
    active functions, of a seeded multi-level selection of functions, hmesh_cells of a seeded multi-level
    selection of cells, and compute_virtual_supports of the global index lists."""
    L = hs.numlevels
    out = {}
    funcs = [[] for _ in range(L)]
    cells = [[] for _ in range(L)]
    for l in qrng.sample(range(L), min(L, qrng.randint(2, 3))):
        nd, nsp = hs.mesh(l).numdofs, hs.mesh(l).numspans
        for _ in range(qrng.randint(1, 2)):
            f = tuple(qrng.randrange(int(n)) for n in nd)
            if f not in funcs[l]:
                funcs[l].append(f)
    for l in qrng.sample(range(L), min(L, qrng.randint(2, 3))):
        nsp = hs.mesh(l).numspans
        for _ in range(qrng.randint(1, 2)):
            c = tuple(qrng.randrange(int(n)) for n in nsp)
            if c not in cells[l]:
                cells[l].append(c)
    out['funcs'] = [tl(x) for x in funcs]
    out['cells'] = [tl(x) for x in cells]

    def dl(d):
        return [[int(k), tl(v)] for k, v in sorted(d.items())]

    def guard(name, fn):
        try:
            out[name] = fn()
        except Exception as e:  # noqa
            out[name] = 'err:' + errclass(e) + ':' + str(e)[:80]
    def kids():
        res = []
        for l in range(L):
            if not funcs[l]:
                res.append(None)
                continue
            fs = sorted(funcs[l])
            e = {}
            if l + 1 < L:
                e['children'] = tl(hs.hmesh.function_children(l, fs))
                e['grandchildren'] = tl(hs.hmesh.function_grandchildren(l, fs, min(L - 1, l + 2)))
            if l >= 1:
                e['parents'] = tl(hs.hmesh.function_parents(l, fs))
                e['grandparents'] = tl(hs.hmesh.function_grandparents(l, fs, max(0, l - 2)))
            res.append(e)
        return res
    guard('kids', kids)
    guard('all', lambda: dl(hs.compute_supports([sorted(a) for a in hs.actfun])))
    guard('funcs_res', lambda: dl(hs.compute_supports([sorted(x) for x in funcs])))
    guard('cells_res', lambda: dl(hs.hmesh.hmesh_cells([sorted(x) for x in cells])))
    guard('virt', lambda: [dl(d) for d in hs.compute_virtual_supports(
        [g[:lv + 1] for lv, g in enumerate(hs.global_indices())])])
    return out


def observe(hs, status, ret, prevs, full, qrng, light=False, bdq=False):
    o = {'status': status, 'L': int(hs.numlevels)}
    if getattr(hs, '_c04_alias', None) is not None:
        o['alias'] = hs._c04_alias
        hs._c04_alias = None
    L = hs.numlevels
    o['levels'] = [[tl(hs.hmesh.active[l]), tl(hs.hmesh.deactivated[l]), tl(hs.actfun[l]), tl(hs.deactfun[l])]
                   for l in range(L)]
    o['ret'] = None if ret is None else [[lv, ret[lv]] for lv in sorted(ret)]
    try:
        o['flatc'] = [[int(l)] + [int(i) for i in c] for (l, c) in hs.active_cells(flat=True)]
        o['flatf'] = [[int(l)] + [int(i) for i in f] for (l, f) in hs.active_functions(flat=True)]
        o['api_levels_ok'] = bool(
            [tl(s) for s in hs.active_cells()] == [lv[0] for lv in o['levels']]
            and [tl(s) for s in hs.deactivated_cells()] == [lv[1] for lv in o['levels']]
            and [tl(s) for s in hs.active_functions()] == [lv[2] for lv in o['levels']]
            and hs.numdofs == sum(len(lv[2]) for lv in o['levels'])
            and tuple(hs.numactive) == tuple(len(lv[2]) for lv in o['levels'])
            and hs.total_active_cells == sum(len(lv[0]) for lv in o['levels']))
    except Exception as e:  # noqa
        o['flat_error'] = errclass(e)
    ncell = sum(len(lv[0]) for lv in o['levels'])
    nfun = sum(len(lv[2]) for lv in o['levels'])
    if ncell * nfun <= (400000 if full else 60000):
        try:
            Z = hs.incidence_matrix().toarray()
            o['inc_shape'] = [int(Z.shape[0]), int(Z.shape[1])]
            o['inc_binary'] = bool(np.all((Z == 0) | (Z == 1)))
            o['inc'] = [[int(j) for j in np.nonzero(row)[0]] for row in Z]
        except Exception as e:  # noqa
            o['inc_error'] = errclass(e) + ': ' + str(e)[:100]
    # relations to earlier states of the same history
    rel = []
    for p in prevs:
        try:
            rel += [bool(p.is_subspace_of(hs)), bool(hs.is_subspace_of(p)), bool(hs == p), bool(p == hs)]
        except Exception as e:  # noqa
            rel += ['err:' + errclass(e)]
    o['rel'] = rel
    # tensor-product tables of every level
    o['tables'] = [[[[int(a), int(b)] for a, b in ms] for ms in m.meshsupp] +
                   [[[int(a), int(b)] for a, b in sf] for sf in m.suppfunc] for m in hs.hmesh.meshes]
    o['numspans'] = [[int(n) for n in m.numspans] for m in hs.hmesh.meshes]
    o['numdofs'] = [[int(n) for n in m.numdofs] for m in hs.hmesh.meshes]
    # support queries with seeded random arguments
    qs = []
    for _ in range(3):
        l = qrng.randrange(L)
        k = qrng.randrange(l + 1)
        pool = sorted(hs.hmesh.active[l] | hs.hmesh.deactivated[l])
        fpool = sorted(hs.actfun[l] | hs.deactfun[l])
        if not pool or not fpool:
            continue
        cells = qrng.sample(pool, min(len(pool), qrng.randint(1, 2)))
        funcs = qrng.sample(fpool, min(len(fpool), qrng.randint(1, 2)))
        try:
            qs.append({'l': l, 'k': k, 'cells': tl(cells), 'funcs': tl(funcs),
                       'cse': tl(hs.cell_support_extension(l, cells, k)),
                       'fse': tl(hs.function_support_extension(l, funcs, k)),
                       'supp': tl(hs.mesh(l).support(funcs)),
                       'supin': tl(hs.mesh(l).supported_in(cells))})
        except Exception as e:  # noqa
            qs.append({'l': l, 'k': k, 'cells': tl(cells), 'funcs': tl(funcs), 'error': errclass(e)})
    o['queries'] = qs
    if bdq and status == 'Ok':
        o['supq'] = support_obs(hs, qrng)
    if bdq and status == 'Ok':
        # only after successful calls: a refine_region call that fails on an empty selection has already
        # added levels without clearing the index caches (stale ravel_global -> IndexError in boundary());
        # such calls are outside the property's quantifier (marks must be non-empty sets of active cells)
        o['bdq'] = boundary_obs(hs, qrng)
    try:
        o['mat'] = None if light else matrix_numbers(hs, full)
    except Exception as e:  # noqa
        o['mat_error'] = errclass(e) + ': ' + str(e)[:160]
    return o


def flat_active(hs):
    return [(l, c) for l in range(hs.numlevels) for c in sorted(hs.hmesh.active[l])]


def marks_of(cells):
    d = {}
    for (l, c) in cells:
        d.setdefault(l, []).append(list(c))
    return [[l, d[l]] for l in sorted(d)]


CONTAINERS = ['set', 'list', 'tuple']


def run_history(cfg, ops, full, seed=0, observe_all=True):
    hs = mk_space(cfg)
    qrng = random.Random(seed)
    states = [hs.copy()]
    obs = []
    ops = [dict(op) for op in ops]
    for i, op in enumerate(ops):
        if op['kind'] == 'refine' and op['container'] in LIVE:
            # aliasing marks are whole levels: the listed levels (those that exist and have active cells) with
            # all their currently active cells; the op recorded in the node says what was actually marked
            lvs = [int(lv) for lv, _ in op['marks'] if int(lv) < hs.numlevels and hs.hmesh.active[int(lv)]]
            op['marks'] = [[lv, tl(hs.hmesh.active[lv])] for lv in sorted(set(lvs))]
            if not op['marks']:
                op['container'] = 'set'
        status, ret = apply_op(hs, op)
        if observe_all or i == len(ops) - 1:
            prevs = [states[-1]] + ([states[0]] if len(states) > 1 else [])
            obs.append(observe(hs, status, ret, prevs, full, qrng, bdq=True))
        else:
            obs.append(None)
        states.append(hs.copy())
    return {'ops': ops, 'obs': obs}


def run_tree(cfg, depth, max_nodes, seed, full, light=False, root_masks=None):
    """All histories of `depth` calls whose marks are the non-empty subsets of the currently
    active cells (canonical order, subset = bit mask); the container type rotates with the node
    number.  When the number of nodes would exceed max_nodes the subsets of a call are sampled
    (seeded) and the result says so."""
    rng = random.Random(seed)
    nodes = []
    info = {'exhaustive': True}
    counter = [0]

    def rec(hs, ops, states, d):
        act = flat_active(hs)
        n = len(act)
        total = (1 << n) - 1
        budget = max(1, (max_nodes - len(nodes)))
        if root_masks is not None and not ops:
            masks = root_masks
        elif total <= budget and (d == 1 or total <= 64 or full):
            masks = range(1, total + 1)
        else:
            # not exhaustive at this node: single cells, the full set, and sampled subsets
            info['exhaustive'] = False
            ms = {1 << i for i in range(n)} | {total}
            want = min(total, max(4, min(24, budget // 4)))
            while len(ms) < want:
                ms.add(rng.randint(1, total))
            masks = sorted(ms)
        for mask in masks:
            if len(nodes) >= max_nodes:
                info['exhaustive'] = False
                return
            cells = [act[i] for i in range(n) if (mask >> i) & 1]
            counter[0] += 1
            op = {'kind': 'refine', 'marks': marks_of(cells), 'container': CONTAINERS[counter[0] % 3], 'trunc': False}
            if all(set(tuple(c) for c in cs) == set(hs.hmesh.active[lv]) for lv, cs in op['marks']):
                op['container'] = LIVE[counter[0] % 3] if counter[0] % 4 else 'live'     # whole levels: marks alias internal state
            h2 = hs.copy()
            status, ret = apply_op(h2, op)
            qrng = random.Random(counter[0])
            prevs = [states[-1]] + ([states[0]] if len(states) > 1 else [])
            o = observe(h2, status, ret, prevs, full, qrng, light=light and counter[0] % 10 != 0, bdq=(counter[0] % 6 == 0))
            ops2 = ops + [op]
            nodes.append({'ops': ops2, 'obs': [None] * len(ops) + [o]})
            if d > 1 and status == 'Ok':
                rec(h2, ops2, states + [h2], d - 1)

    hs = mk_space(cfg)
    rec(hs, [], [hs], depth)
    return nodes, info


def gen_op(rng, hs, cfg, cap):
    L = hs.numlevels
    dim = hs.dim
    r = rng.random()
    if r < 0.03:
        return {'kind': 'refine', 'marks': rng.choice([[], [[0, []]], [[L - 1, []]]]), 'container': rng.choice(CONTAINERS), 'trunc': False}
    if r < 0.2:
        lv = rng.randrange(L + (1 if rng.random() < 0.15 else 0))
        if rng.random() < 0.3:
            ax = rng.randrange(dim)
            nmax = max(int(n) for n in hs.mesh(0).numspans)
            a = rng.randint(0, 2 * nmax - 1) / 2.0
            lo, hi = [-1.0] * dim, [nmax + 1.0] * dim
            lo[ax], hi[ax] = a, a + rng.choice([0.5, 1.0, 1.5, 2.0])
            pred = {'type': 'box', 'lo': lo, 'hi': hi}
        elif rng.random() < 0.5:
            pred = {'type': 'halfspace', 'n': [rng.choice([-1, 0, 1, 1, 2]) for _ in range(dim)], 'b': [rng.randint(-3, 12), 7]}
        else:
            pred = {'type': 'ball', 'c': [rng.choice([0, 0.5, 1, 1.5, 2, 3]) for _ in range(dim)], 'r2': [rng.randint(1, 30), 7]}
        return {'kind': 'region', 'lv': lv, 'pred': pred}
    levels = [l for l in range(L) if hs.hmesh.active[l]]
    nl = 1 if rng.random() < 0.6 else (2 if rng.random() < 0.8 else 3)
    chosen = rng.sample(levels, min(nl, len(levels)))
    cells = []
    for l in chosen:
        act = sorted(hs.hmesh.active[l])
        style = rng.random()
        if style < 0.25:
            sel = [rng.choice(act)]
        elif style < 0.45:
            sel = [act[0]] if rng.random() < 0.5 else [act[-1]]            # corners
        elif style < 0.6:
            sel = [c for c in act if all(ci % 2 == 0 for ci in c)][:6] or [act[0]]   # isolated cells
        elif style < 0.7 and len(act) <= 12:
            sel = act
        else:
            sel = rng.sample(act, min(len(act), rng.randint(1, 5)))
        cells += [(l, c) for c in sel]
    trunc = cfg['disparity'] is not None and rng.random() < 0.12
    op = {'kind': 'refine', 'marks': marks_of(cells), 'container': rng.choice(CONTAINERS), 'trunc': trunc}
    if all(set(tuple(c) for c in cs) == set(hs.hmesh.active[lv]) for lv, cs in op['marks']) and rng.random() < 0.7:
        op['container'] = rng.choice(LIVE + ['live'])      # whole levels: the live set object / other iterables
        return op
    if rng.random() < 0.1 and op['container'] != 'set':
        for m in op['marks']:
            m[1] = m[1] + [m[1][0]]          # a repeated cell in a list/tuple
            rng.shuffle(m[1])
    return op


def run_random(cfg, seed, nops, cap, full):
    rng = random.Random(seed)
    hs = mk_space(cfg)
    qrng = random.Random(seed + 1)
    states = [hs.copy()]
    ops, obs = [], []
    for _ in range(nops):
        if sum(len(a) for a in hs.hmesh.active) > cap or int(hs.mesh(hs.numlevels - 1).numbf) > 12 * cap:
            break
        op = gen_op(rng, hs, cfg, cap)
        status, ret = apply_op(hs, op)
        prevs = [states[-1]] + ([states[0]] if len(states) > 1 else [])
        ops.append(op)
        obs.append(observe(hs, status, ret, prevs, full, qrng, bdq=True))
        states.append(hs.copy())
    return {'ops': ops, 'obs': obs}


def run_chain(cfg, seed, nops, cap, full):
    """A deep narrow refinement chain: the first call refines all coarse cells except a seeded 'hole' at
    one end, every later call marks the active cell of the finest level that is closest to the hole
    (so every call adds a level and the disparity marking has to propagate over several hops)."""
    rng = random.Random(seed)
    hs = mk_space(cfg)
    qrng = random.Random(seed + 1)
    states = [hs.copy()]
    ops, obs = [], []
    cells0 = sorted(hs.hmesh.active[0])
    nsp = [int(n) for n in hs.mesh(0).numspans]
    hole = [tuple(rng.choice([0, n - 1, n // 2]) for n in nsp)]
    if rng.random() < 0.25:
        hole.append(tuple(rng.choice([0, n - 1]) for n in nsp))
    # the chain converges to a seeded vertex or cell centre of the coarse mesh (level-0 cell coordinates)
    centre = [rng.randint(0, 2 * n) / 2.0 for n in nsp]
    for k in range(nops):
        if sum(len(a) for a in hs.hmesh.active) > cap:
            break
        if k == 0:
            sel = [(0, c) for c in cells0 if c not in hole] or [(0, cells0[0])]
        else:
            l = max(i for i in range(hs.numlevels) if hs.hmesh.active[i])
            sc = float(1 << l)
            act = sorted(hs.hmesh.active[l])
            best = min(act, key=lambda c: (sum(((ci + 0.5) / sc - x) ** 2 for ci, x in zip(c, centre)), c))   # closest to the vertex
            sel = [(l, best)]
            if rng.random() < 0.15 and len(act) > 1:
                sel.append((l, rng.choice(act)))
        op = {'kind': 'refine', 'marks': marks_of(sorted(set(sel))), 'container': rng.choice(CONTAINERS), 'trunc': False}
        status, ret = apply_op(hs, op)
        prevs = [states[-1]] + ([states[0]] if len(states) > 1 else [])
        ops.append(op)
        obs.append(observe(hs, status, ret, prevs, full, qrng, light=(k < nops - 1 and k % 2 == 0), bdq=(k == nops - 1 and os.environ.get('C04_NOBDQ') is None)))
        states.append(hs.copy())
    return {'ops': ops, 'obs': obs}


def main():
    import pyiga
    assert os.path.realpath(pyiga.__file__).startswith(os.path.realpath(os.environ['VERIF_IMPL_DIR'])), pyiga.__file__
    payload = json.load(sys.stdin)
    full = bool(payload.get('full'))
    results = []
    infos = []
    for case in payload['cases']:
        cfg = case['cfg']
        info = {}
        try:
            if case['mode'] == 'history':
                nodes = [run_history(cfg, case['ops'], full, seed=case.get('seed', 0))]
            elif case['mode'] == 'tree':
                nodes, info = run_tree(cfg, case['depth'], case['max_nodes'], case.get('seed', 0), full, light=bool(case.get('light')), root_masks=case.get('root_masks'))
            elif case['mode'] == 'chain':
                nodes = [run_chain(cfg, case['seed'], case['nops'], case.get('cap', 400), full)]
            else:
                nodes = [run_random(cfg, case['seed'], case['nops'], case.get('cap', 150), full)]
        except Exception as e:  # noqa
            import traceback
            nodes = []
            info = {'driver_error': errclass(e) + ': ' + traceback.format_exc()[-600:]}
        results.append(nodes)
        infos.append(info)
    print(json.dumps({'results': results, 'infos': infos}))


if __name__ == '__main__':
    main()
