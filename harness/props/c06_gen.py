"""C06 -- generator of variational forms over the documented vform vocabulary
(docs/source/guide/vforms.rst): shape-directed random trees rendered as Python
code over the public API.  All random choices come from the rng handed in.

A generated tree is a nested tuple (template, child, child, ..) where template is
a str.format pattern; `render` turns it into code; `mutate` changes exactly one
template (function name, constant, operator, derivative axis, leaf) -- used for the
"twins" stream T + mutate(T) that exercises the merge-only-if-identical conjunct.
"""

FUNCS = ['sin', 'cos', 'exp', 'sqrt', 'log', 'tan', 'abs']
# short dyadic rationals only: float arithmetic on them is exact unless a division is inexact, which the
# check detects by the length of the resulting constant (see has_long_const in c06.py)
CONSTS = ['1.0', '2.0', '-1.0', '-2.0', '0.5', '0.25', '3.0', '-3.0', '0.0', '1.5', '-0.5', '4.0']

MUT = {
    'sin({0})': 'cos({0})', 'cos({0})': 'sin({0})', 'exp({0})': 'tan({0})', 'tan({0})': 'exp({0})',
    'sqrt({0})': 'log({0})', 'log({0})': 'sqrt({0})', 'abs({0})': 'exp({0})',
    '({0} + {1})': '({0} - {1})', '({0} - {1})': '({0} + {1})', '({0} * {1})': '({0} / {1})',
    '({0} / {1})': '({0} * {1})',
    '-1.0': '-2.0', '-2.0': '-1.0', '1.0': '2.0', '2.0': '1.0', '0.5': '0.25', '0.25': '0.5', '3.0': '-3.0',
    '-3.0': '3.0', '1.5': '-0.5', '-0.5': '1.5', '4.0': '3.0', '0.0': '1.0',
    'u': 'v', 'v': 'u', 'f': 'c', 'c': 'f',
}


# templates of non-commutative binary nodes whose two operands have the same shape
SWAPPABLE = ['({0} - {1})', '({0} / {1})', 'cross({0}, {1})', 'outer({0}, {1})', 'dot({0}, {1})', '({0} @ {1})']


def render(t):
    if isinstance(t, str):
        return t
    return t[0].format(*[render(c) for c in t[1:]])


def positions(t, path=()):
    out = [path]
    if not isinstance(t, str):
        for i, c in enumerate(t[1:]):
            out += positions(c, path + (i + 1,))
    return out


def get_at(t, path):
    for i in path:
        t = t[i]
    return t


def set_at(t, path, new):
    if not path:
        return new
    l = list(t)
    l[path[0]] = set_at(t[path[0]], path[1:], new)
    return tuple(l)


class Gen:
    def __init__(self, rng, max_depth=4):
        self.rng = rng
        self.max_depth = max_depth

    # -- form-level choices ------------------------------------------------------
    def setup(self):
        r = self.rng
        kind = r.choices(['volume', 'surface', 'boundary', 'spacetime'], weights=[10, 2, 2, 4])[0]
        if kind == 'volume':
            d = r.choice([1, 2, 2, 2, 3]); g = d
        elif kind == 'surface':
            d = r.choice([1, 2]); g = d + 1
        elif kind == 'boundary':
            d = r.choice([2, 3]); g = d
        else:
            d = r.choice([2, 3]); g = d
        self.kind, self.d, self.g = kind, d, g
        self.arity = r.choice([1, 2, 2])
        self.ncomp = None
        if r.random() < 0.2:
            self.ncomp = r.choice([d, d, 2])
        self.phys_ok = (g == d)
        # derivative mode of this form: physical (default of the API) or parametric
        self.par = (not self.phys_ok) or r.random() < 0.3
        self.used = set()
        self.twospaces = r.random() < 0.1

    def header_code(self):
        d, g = self.d, self.g
        args = ['%d' % d]
        if g != d:
            args.append('geo_dim=%d' % g)
        if self.kind == 'boundary':
            args.append('boundary=True')
        if self.arity != 2:
            args.append('arity=%d' % self.arity)
        if self.kind == 'spacetime':
            args.append('spacetime=True')
        lines = ['V = VForm(%s)' % ', '.join(args)]
        bargs = []
        if self.ncomp is not None:
            bargs.append('components=(%s)' % ', '.join([str(self.ncomp)] * 2))
        if self.twospaces:
            bargs.append('spaces=(0, 1)')
        if self.arity == 2:
            lines.append('u, v = V.basisfuns(%s)' % ', '.join(bargs))
        else:
            lines.append('u = V.basisfuns(%s)' % ', '.join(bargs))
        decl = {
            'f': "f = V.input('f')", 'g': "g = V.input('g', shape=(%d,))" % d,
            'M': "M = V.input('M', shape=(%d, %d))" % (d, d),
            'pf': "pf = V.input('pf', physical=True)", 'pg': "pg = V.input('pg', shape=(%d,), physical=True)" % d,
            'c': "c = V.parameter('c')", 'cv': "cv = V.parameter('cv', shape=(%d,))" % d,
            'cm': "cm = V.parameter('cm', shape=(%d, %d))" % (d, d),
            'x': 'x = V.Geo', 'nrm': 'nrm = V.normal', 'jac': 'jac = V.Jac', 'gwt': 'gwt = V.GaussWeight',
        }
        for k in ['f', 'g', 'M', 'pf', 'pg', 'c', 'cv', 'cm', 'x', 'nrm', 'jac', 'gwt']:
            if k in self.used:
                lines.append(decl[k])
        return lines

    def use(self, name):
        self.used.add(name)
        return name

    # -- leaves ------------------------------------------------------------------
    def bf_scalar(self):
        r = self.rng
        name = r.choice(['u', 'v']) if self.arity == 2 else 'u'
        if self.ncomp is None:
            return name
        return ('{0}[%d]' % r.randrange(self.ncomp), name)

    def dparg(self):
        return ', parametric=True' if self.par else ''

    def S_leaf(self, diff=False):
        r = self.rng
        d = self.d
        opts = ['bf'] * 5 + ['f', 'f', 'c', 'const', 'const', 'g', 'x']
        if not diff:
            opts += ['pf', 'cv', 'cm', 'M']
        k = r.choice(opts)
        if k == 'bf':
            return self.bf_scalar()
        if k == 'const':
            return r.choice(CONSTS)
        if k in ('f', 'c', 'pf'):
            return self.use(k)
        if k == 'g' or k == 'cv':
            return ('{0}[%d]' % r.randrange(d), self.use(k))
        if k == 'x':
            return ('{0}[%d]' % r.randrange(self.g), self.use('x'))
        return ('{0}[%d, %d]' % (r.randrange(d), r.randrange(d)), self.use(k))

    # -- scalars -----------------------------------------------------------------
    def S(self, depth, diff=False):
        r = self.rng
        d = self.d
        if depth <= 0 or r.random() < 0.15:
            return self.S_leaf(diff)
        if diff:
            k = r.choices(['add', 'sub', 'mul', 'div', 'leaf'], weights=[3, 2, 4, 2, 3])[0]
        else:
            k = r.choices(['add', 'sub', 'mul', 'div', 'neg', 'pow', 'fn', 'dx', 'inner', 'tr', 'det', 'norm',
                           'vidx', 'midx', 'div_', 'lap', 'dt'],
                          weights=[5, 3, 7, 2, 2, 2, 4, 5, 4, 2, 2, 1, 2, 2, 2, 2, 1])[0]
        if self.kind == 'spacetime' and not diff and r.random() < 0.25:
            k = 'dt'
        if k == 'leaf':
            return self.S_leaf(diff)
        if k == 'add':
            return ('({0} + {1})', self.S(depth - 1, diff), self.S(depth - 1, diff))
        if k == 'sub':
            return ('({0} - {1})', self.S(depth - 1, diff), self.S(depth - 1, diff))
        if k == 'mul':
            return ('({0} * {1})', self.S(depth - 1, diff), self.S(depth - 1, diff))
        if k == 'div':
            return ('({0} / {1})', self.S(depth - 1, diff), self.S(depth - 1, diff))
        if k == 'neg':
            return ('(-{0})', self.S(depth - 1))
        if k == 'pow':
            return ('({0} ** %d)' % r.choice([-2, -1, 0, 1, 2, 2, 3]), self.S(depth - 1))
        if k == 'fn':
            return (r.choice(FUNCS) + '({0})', self.S(depth - 1))
        if k == 'dx':
            ax = r.randrange(d)
            return ('Dx({0}, %d%s)' % (ax, self.dparg()), self.S(min(depth - 1, 2), diff=True))
        if k == 'dt':
            if self.kind != 'spacetime':
                return self.S(depth - 1)
            return self.st_mixed()
        if k == 'inner':
            n = r.choice([d, d, self.g, 2, 3])
            return (r.choice(['inner({0}, {1})', 'dot({0}, {1})']), self.Vn(depth - 1, n), self.Vn(depth - 1, n))
        if k == 'tr':
            if r.random() < 0.4:
                m_, n_ = r.choice([1, 2, 3]), r.choice([1, 2, 3])
                return (r.choice(['inner({0}, {1})', '({0})[%d, %d]' % (r.randrange(m_), r.randrange(n_))]),
                        self.Mmn(depth - 1, m_, n_), self.Mmn(depth - 1, m_, n_))
            return ('tr({0})', self.Mn(depth - 1, d))
        if k == 'det':
            return ('det({0})', self.Mn(min(depth - 1, 1), r.choice([d, 2])))
        if k == 'norm':
            return ('norm({0})', self.Vn(depth - 1, d))
        if k == 'vidx':
            n = r.choice([d, self.g, 3])
            return ('({0})[%d]' % r.randrange(n), self.Vn(depth - 1, n))
        if k == 'midx':
            return ('({0})[%d, %d]' % (r.randrange(d), r.randrange(d)), self.Mn(depth - 1, d))
        if k == 'div_':
            return ('div({0}%s)' % self.dparg(), self.Vn(1, d, diff=True))
        if k == 'lap':
            leaf = self.bf_scalar() if r.random() < 0.7 else self.use('f')
            return ('tr(hess({0}%s))' % self.dparg(), leaf)
        raise AssertionError(k)

    def st_mixed(self):
        """space-time forms: time derivatives of order 1..3, alone or combined with ONE space derivative
        (d_x d_t^n: the space-time split of replace_physical_derivs), on basis functions and -- with
        parametric derivatives, the only ones the code accepts there -- on input fields"""
        r = self.rng
        d = self.d
        T = d - 1
        n = r.choice([1, 2, 2, 3])
        k = r.randrange(T)
        if r.random() < 0.2:
            # input field, parametric derivatives, total order <= 2 (the derivative arrays stop there)
            f = self.use('f')
            return (r.choice(['Dx(Dx({0}, %d, 1, parametric=True), %d, parametric=True)' % (T, k),
                              'Dx(Dx({0}, %d, parametric=True), %d, 1, parametric=True)' % (k, T),
                              'Dx({0}, %d, 2, parametric=True)' % T]), f)
        bf = self.bf_scalar()
        if self.par:
            return (r.choice(['Dx({0}, %d, %d, parametric=True)' % (T, n),
                              'Dx(Dx({0}, %d, %d, parametric=True), %d, parametric=True)' % (T, n, k),
                              'Dx(Dx({0}, %d, parametric=True), %d, %d, parametric=True)' % (k, T, n),
                              'Dx(Dx(Dx({0}, %d, parametric=True), %d, parametric=True), %d, %d, parametric=True)' % (k, r.randrange(T), T, n)]), bf)
        return (r.choice(['({0}).dt(%d)' % n,
                          'Dx(({0}).dt(%d), %d)' % (n, k),
                          '(Dx({0}, %d)).dt(%d)' % (k, n),
                          'grad(({0}).dt(%d))[%d]' % (n, k),
                          '(grad({0}).dt(%d))[%d]' % (n, k),
                          'Dx(Dx({0}, %d, %d), %d)' % (T, n, k),
                          'inner(grad(({0}).dt(%d)), grad({0}))' % n]), bf)

    # -- vectors of length n -----------------------------------------------------
    def Vn(self, depth, n, diff=False):
        r = self.rng
        d, g = self.d, self.g
        leaves = []
        if n == d:
            leaves += ['g', 'g']
            if not diff:
                leaves += ['cv', 'pg']
        if n == g:
            leaves += ['x']
            if self.kind in ('surface', 'boundary') and not diff and (d, g) in ((1, 2), (2, 3), (2, 2), (3, 3)):
                leaves += ['nrm']
        if self.ncomp == n:
            leaves += ['bfv', 'bfv', 'bfv']
        if diff or depth <= 0 or r.random() < 0.2:
            if leaves and r.random() < 0.8:
                k = r.choice(leaves)
                if k == 'bfv':
                    return r.choice(['u', 'v']) if self.arity == 2 else 'u'
                return self.use(k)
            return ('as_vector([' + ', '.join('{%d}' % i for i in range(n)) + '])',) + tuple(
                self.S(max(depth - 1, 0), diff) for _ in range(n))
        opts = ['lit', 'add', 'smul', 'sdiv', 'matvec']
        if n == d:
            opts += ['grad', 'grad', 'row', 'dxv']
        if n == 3:
            opts += ['cross']
        if n == 3 and d == 3 and not self.par:
            opts += ['curl']
        k = r.choice(opts)
        if k == 'lit':
            return ('as_vector([' + ', '.join('{%d}' % i for i in range(n)) + '])',) + tuple(
                self.S(depth - 1) for _ in range(n))
        if k == 'add':
            return (r.choice(['({0} + {1})', '({0} - {1})']), self.Vn(depth - 1, n), self.Vn(depth - 1, n))
        if k == 'smul':
            return ('({0} * {1})', self.S(depth - 1), self.Vn(depth - 1, n))
        if k == 'sdiv':
            return ('({0} / {1})', self.Vn(depth - 1, n), self.S(depth - 1))
        if k == 'matvec':
            kk = r.choice([n, n, 1, 2, 3])
            return (r.choice(['dot({0}, {1})', '({0} @ {1})']), self.Mmn(depth - 1, n, kk), self.Vn(depth - 1, kk))
        if k == 'grad':
            if self.kind == 'spacetime':
                # grad uses the space dimensions only: length d-1, pad with a time derivative
                return ('as_vector(list(grad({0}%s)) + [Dx({0}, %d%s)])' % (self.dparg(), d - 1, self.dparg()),
                        self.S(min(depth - 1, 1), diff=True))
            return ('grad({0}%s)' % self.dparg(), self.S(min(depth - 1, 2), diff=True))
        if k == 'row':
            return ('({0})[%d, :]' % r.randrange(d), self.Mn(depth - 1, d))
        if k == 'dxv':
            return ('Dx({0}, %d%s)' % (r.randrange(d), self.dparg()), self.Vn(1, n, diff=True))
        if k == 'cross':
            return ('cross({0}, {1})', self.Vn(depth - 1, 3), self.Vn(depth - 1, 3))
        if k == 'curl':
            return ('curl({0})', self.Vn(1, 3, diff=True))
        raise AssertionError(k)

    # -- m x n matrices, m != n allowed (products of rectangular factors, Jac of a surface) ---------
    def lit_matrix(self, depth, m, n):
        return ('as_matrix([' + ', '.join('[' + ', '.join('{%d}' % (i * n + j) for j in range(n)) + ']'
                                          for i in range(m)) + '])',) + tuple(
            self.S(max(depth - 1, 0)) for _ in range(m * n))

    def Mmn(self, depth, m, n):
        r = self.rng
        d, g = self.d, self.g
        if m == n and r.random() < 0.5:
            return self.Mn(depth, n)
        leaves = []
        if (m, n) == (g, d) and self.kind in ('volume', 'surface', 'boundary'):
            leaves += ['jac']
        if (m, n) == (d, g) and self.kind in ('volume', 'surface', 'boundary'):
            leaves += ['jacT']
        if depth <= 0 or r.random() < 0.3:
            if leaves and r.random() < 0.7:
                k = r.choice(leaves)
                return self.use('jac') if k == 'jac' else ('({0}).T', self.use('jac'))
            return self.lit_matrix(depth, m, n)
        k = r.choice(['lit', 'mm', 'mm', 'T', 'outer', 'add', 'smul'])
        if k == 'lit':
            return self.lit_matrix(depth, m, n)
        if k == 'mm':
            kk = r.choice([1, 2, 3])
            return (r.choice(['dot({0}, {1})', '({0} @ {1})']), self.Mmn(depth - 1, m, kk), self.Mmn(depth - 1, kk, n))
        if k == 'T':
            return ('({0}).T', self.Mmn(depth - 1, n, m))
        if k == 'outer':
            return ('outer({0}, {1})', self.Vn(depth - 1, m), self.Vn(depth - 1, n))
        if k == 'add':
            return (r.choice(['({0} + {1})', '({0} - {1})']), self.Mmn(depth - 1, m, n), self.Mmn(depth - 1, m, n))
        return ('({0} * {1})', self.S(depth - 1), self.Mmn(depth - 1, m, n))

    # -- n x n matrices ------------------------------------------------------------
    def Mn(self, depth, n):
        r = self.rng
        d, g = self.d, self.g
        leaves = []
        if n == d:
            leaves += ['cm', 'M']
            if g == d:
                leaves += ['jac']
        if depth <= 0 or r.random() < 0.25:
            if leaves and r.random() < 0.8:
                return self.use(r.choice(leaves))
            return ('as_matrix([' + ', '.join('[' + ', '.join('{%d}' % (i * n + j) for j in range(n)) + ']'
                                              for i in range(n)) + '])',) + tuple(
                self.S(max(depth - 1, 0)) for _ in range(n * n))
        opts = ['lit', 'mm', 'T', 'inv', 'outer', 'add', 'smul', 'mmr', 'mmr']
        if n == d and self.kind != 'spacetime':
            opts += ['gradv', 'hess', 'hess']
        if n == d and g == d + 1:
            opts += ['metric', 'metric', 'metric']
        k = r.choice(opts)
        if k == 'mmr':
            kk = r.choice([x for x in (1, 2, 3) if x != n])
            return (r.choice(['dot({0}, {1})', '({0} @ {1})']), self.Mmn(depth - 1, n, kk), self.Mmn(depth - 1, kk, n))
        if k == 'metric':
            return (r.choice(['dot(({0}).T, {0})', '(({0}).T @ {0})']), self.use('jac'))
        if k == 'lit':
            return ('as_matrix([' + ', '.join('[' + ', '.join('{%d}' % (i * n + j) for j in range(n)) + ']'
                                              for i in range(n)) + '])',) + tuple(
                self.S(depth - 1) for _ in range(n * n))
        if k == 'mm':
            return (r.choice(['dot({0}, {1})', '({0} @ {1})']), self.Mn(depth - 1, n), self.Mn(depth - 1, n))
        if k == 'T':
            return ('({0}).T', self.Mn(depth - 1, n))
        if k == 'inv':
            return ('inv({0})', self.Mn(min(depth - 1, 1), n))
        if k == 'outer':
            return ('outer({0}, {1})', self.Vn(depth - 1, n), self.Vn(depth - 1, n))
        if k == 'add':
            return (r.choice(['({0} + {1})', '({0} - {1})']), self.Mn(depth - 1, n), self.Mn(depth - 1, n))
        if k == 'smul':
            return ('({0} * {1})', self.S(depth - 1), self.Mn(depth - 1, n))
        if k == 'gradv':
            return ('grad({0}%s)' % self.dparg(), self.Vn(1, n, diff=True))
        if k == 'hess':
            leaf = self.bf_scalar() if r.random() < 0.7 else self.use(r.choice(['f', 'f', 'pf']))
            return ('hess({0}%s)' % self.dparg(), leaf)
        raise AssertionError(k)

    # -- whole forms -----------------------------------------------------------------
    def measure(self):
        return 'ds' if self.kind in ('surface', 'boundary') else 'dx'

    def integrand_with_bfuns(self, t):
        """multiply by the test/trial functions so that most forms are proper (bi)linear forms"""
        r = self.rng
        if r.random() < 0.5:
            names = ['u', 'v'] if self.arity == 2 else ['u']
            for nm in names:
                if self.ncomp is None:
                    t = ('({0} * {1})', t, nm)
                else:
                    t = ('({0} * {1}[%d])' % r.randrange(self.ncomp), t, nm)
        return t

    def form(self, stream):
        """-> spec dict {'code', 'stream', 'kind', ...}"""
        r = self.rng
        self.setup()
        depth = r.randint(1, self.max_depth)
        if stream == 'twins':
            t = self.S(depth)
            pos = [p for p in positions(t) if (get_at(t, p) if isinstance(get_at(t, p), str) else get_at(t, p)[0]) in MUT]
            if pos:
                p = r.choice(pos)
                node = get_at(t, p)
                if isinstance(node, str):
                    new = MUT[node]
                    if new == 'v' and self.arity != 2:
                        new = node
                    if new in ('f', 'c'):
                        self.use(new)
                else:
                    new = (MUT[node[0]],) + tuple(node[1:])
                t2 = set_at(t, p, new)
            else:
                t2 = t
            w = self.S(1)
            body = ('(({0} * {2}) + ({1} * {2}))', t, t2, w) if r.random() < 0.6 else ('({0} + {1})', t, t2)
            body = self.integrand_with_bfuns(body)
        elif stream == 'mirror':
            # operand-swapped twins: for a non-commutative node N = op(a, b) the same form also contains the
            # mirrored node op(b, a) (the merge-only-if-identical conjunct for '-', '/', cross, outer, products)
            mode = r.random()
            if mode < 0.35:
                a, b = self.S(r.randint(1, 2)), self.S(r.randint(1, 2))
                t = (r.choice(['({0} - {1})', '({0} / {1})']), a, b)
            elif mode < 0.5 and self.d == 3:
                a, b = self.Vn(1, 3), self.Vn(1, 3)
                t = ('inner(cross({0}, {1}), {2})', a, b, self.Vn(1, 3))
            else:
                t = self.S(max(depth, 2))
            pos = [p for p in positions(t) if not isinstance(get_at(t, p), str) and get_at(t, p)[0] in SWAPPABLE]
            if not pos:
                t = ('({0} - {1})', t, self.S(2))
                pos = [()]
            p = r.choice(pos)
            node = get_at(t, p)
            t2 = set_at(t, p, (node[0], node[2], node[1]) + tuple(node[3:]))
            w = self.S(1)
            body = r.choice([('(({0} * {2}) + ({1} * {2}))', t, t2, w), ('({0} * {1})', t, t2), ('({0} + {1})', t, t2),
                             ('(({0} - {1}) * {2})', t, t2, w), ('({0} / ({1} + 2.0))', t, t2)])
            body = self.integrand_with_bfuns(body)
        elif stream == 'malformed':
            t = self.S(depth)
            bad = r.choice(['(-{0})', 'Dx(sin({0}), 0)', 'Dx(Dx({0} * {0}, 0, 2), 0)', 'inner({0}, {0})',
                            '({0})[0]', 'det({0})', '({0} ** 0.5)', 'grad({0}, parametric=True)[0] + grad({0})[0]',
                            'Dx(-({0}), 0)', 'curl({0})', 'hess(hess({0}))[0, 0]'])
            inner = self.Vn(1, self.d) if bad.startswith('(-') else self.bf_scalar()
            body = ('({0} * {1})', t, (bad, inner))
        else:
            body = self.integrand_with_bfuns(self.S(depth))
        lets = []
        if stream in ('grammar', 'mirror') and self.ncomp is None and r.random() < 0.35:
            # let-bound tensor variables: the (possibly rectangular) tensor node is only expanded by the
            # _to_literal_vec_mat pass of finalize, where the oracle sees it before and after
            for q in range(r.randint(1, 2)):
                m_, n_ = r.choice([1, 2, 3]), r.choice([1, 2, 3])
                if r.random() < 0.75:
                    kk = r.choice([1, 2, 3])
                    te = (r.choice(['dot({0}, {1})', '({0} @ {1})']), self.Mmn(1, m_, kk), self.Mmn(1, kk, n_))
                    use = r.choice(['T%d[%d, %d]' % (q, r.randrange(m_), r.randrange(n_)), 'inner(T%d, T%d)' % (q, q)])
                else:
                    kk = r.choice([1, 2, 3])
                    te = ('dot({0}, {1})', self.Mmn(1, m_, kk), self.Vn(1, kk))
                    use = 'T%d[%d]' % (q, r.randrange(m_))
                lets.append("T%d = V.let('T%d', %s)" % (q, q, render(te)))
                body = ('({0} + %s)' % use, body)
        lines = self.header_code() + lets
        meas = self.measure()
        if r.random() < 0.08:
            lines.append('V.add(%s)' % render(body))         # no measure at all
        else:
            lines.append('V.add(%s * %s)' % (render(body), meas))
        if r.random() < 0.1 and stream == 'grammar':
            lines.append('V.add(%s * %s)' % (render(self.integrand_with_bfuns(self.S(2))), meas))
        return {'code': '\n'.join(lines), 'stream': stream, 'kind': self.kind, 'dim': self.d,
                'arity': self.arity, 'ncomp': self.ncomp}


LIBRARY = [
    'V = mass_vf(1)', 'V = mass_vf(2)', 'V = mass_vf(3)', 'V = stiffness_vf(1)', 'V = stiffness_vf(2)',
    'V = stiffness_vf(3)', 'V = heat_st_vf(2)', 'V = heat_st_vf(3)', 'V = wave_st_vf(2)', 'V = wave_st_vf(3)',
    'V = divdiv_vf(2)', 'V = divdiv_vf(3)', 'V = L2functional_vf(2)', 'V = L2functional_vf(3, physical=True)',
    # rectangular factors: 2x3 @ 3x2, 1xn @ nx1, Jac^T Jac of a surface, kept un-indexed in a variable and indexed directly
    'V = VForm(2)\nu, v = V.basisfuns()\nf = V.input("f")\ng = V.input("g", shape=(2,))\n'
    'A = as_matrix([[f, g[0], u], [g[1], v, 2.0]])\nB = as_matrix([[u, f], [v, g[0]], [g[1], 0.5]])\n'
    'P = V.let("P", dot(A, B))\nQ = V.let("Q", dot(B, A))\nV.add((P[0, 1] * Q[2, 0] + tr(dot(A, B)) + inner(Q, Q)) * dx)',
    'V = VForm(3)\nu, v = V.basisfuns()\ng = V.input("g", shape=(3,))\n'
    'R1 = as_matrix([[g[0], g[1], g[2]]])\nC1 = as_matrix([[u], [v], [g[0]]])\n'
    'S1 = V.let("S1", dot(R1, C1))\nO1 = V.let("O1", dot(C1, R1))\nW1 = V.let("W1", dot(R1, grad(u)))\n'
    'V.add((S1[0, 0] * v + O1[2, 1] * u + W1[0] * v) * dx)',
    'V = VForm(2, geo_dim=3)\nu, v = V.basisfuns()\nG = V.let("G", dot(V.Jac.T, V.Jac))\n'
    'V.add((G[0, 1] * u * v + det(dot(V.Jac.T, V.Jac)) * u * v + inner(G, G) * u) * ds)',
    'V = VForm(1, geo_dim=2)\nu, v = V.basisfuns()\nG = V.let("G", dot(V.Jac.T, V.Jac))\nH = V.let("H", dot(V.Jac, V.Jac.T))\n'
    'V.add((G[0, 0] + H[1, 0]) * u * v * ds)',
    # parametric and physical derivatives of quotients and products of input fields and basis functions
    'V = VForm(2)\nu, v = V.basisfuns()\nf = V.input("f")\nV.add(Dx(f / u, 0, parametric=True) * Dx(u * f, 1, parametric=True) * v * dx)',
    'V = VForm(2)\nu, v = V.basisfuns()\nf = V.input("f")\ng = V.input("g", shape=(2,))\n'
    'V.add(inner(grad(f * u / (g[0] + 2.0), parametric=True), grad(v / (f + 3.0), parametric=True)) * dx)',
    'V = VForm(3, arity=1)\nu = V.basisfuns()\nf = V.input("f")\nV.add((Dx(u / f, 2, parametric=True) + Dx((u * f) / (f * f + 1.0), 1)) * dx)',
    'V = VForm(2, geo_dim=3, arity=1)\nu = V.basisfuns()\nf = V.input("f")\nV.add(Dx(f / (u + 2.0), 1, parametric=True) * ds)',
    # the same difference / quotient / cross product in both operand orders (merge only if identical)
    'V = VForm(2)\nu, v = V.basisfuns()\nf = V.input("f")\ng = V.input("g", shape=(2,))\n'
    'V.add(((f * u - g[0] * v) * g[1] + (g[0] * v - f * u) * f) * dx)',
    'V = VForm(2)\nu, v = V.basisfuns()\nf = V.input("f")\nc = V.parameter("c")\n'
    'V.add((((f + c) / (u * v + 2.0)) + ((u * v + 2.0) / (f + c))) * dx)',
    'V = VForm(3)\nu, v = V.basisfuns()\nB = V.input("B", shape=(3,))\nE = V.input("E", shape=(3,))\n'
    'V.add((inner(cross(B, E), grad(u)) * v + inner(cross(E, B), grad(v)) * u) * dx)',
    'V = VForm(2)\nu, v = V.basisfuns()\nM = V.input("M", shape=(2, 2))\ncm = V.parameter("cm", shape=(2, 2))\n'
    'V.add((tr(dot(M, cm)) * u * v + dot(cm, M)[0, 1] * u * v + outer(grad(u), grad(v))[0, 1] - outer(grad(v), grad(u))[0, 1]) * dx)',
    # space-time split with repeated time derivatives of a space derivative (dims 2 and 3, u and v)
    'V = VForm(3, spacetime=True)\nu, v = V.basisfuns()\nV.add(inner(grad(u.dt(2)), grad(v)) * dx)',
    'V = VForm(2, spacetime=True)\nu, v = V.basisfuns()\nV.add(inner(grad(u.dt(2)), grad(v)) * dx)',
    'V = VForm(3, spacetime=True)\nu, v = V.basisfuns()\nV.add(inner(grad(u).dt(2), grad(v).dt(3)) * dx)',
    'V = VForm(2, spacetime=True)\nu, v = V.basisfuns()\nV.add((Dx(Dx(u, 1, 3), 0) * v.dt(2) + u.dt(3) * Dx(v.dt(2), 0)) * dx)',
    'V = VForm(3, spacetime=True, arity=1)\nv = V.basisfuns()\nV.add((Dx(v.dt(2), 1) + Dx(v.dt(3), 0) + v.dt(4)) * dx)',
    'V = VForm(2, spacetime=True)\nu, v = V.basisfuns(components=(2, 2))\nV.add(inner(Dx(u.dt(2), 0), Dx(v, 0).dt(2)) * dx)',
    'V = VForm(3, spacetime=True)\nu, v = V.basisfuns()\nf = V.input("f")\n'
    'V.add((Dx(Dx(f, 2, parametric=True), 0, parametric=True) * u + Dx(f, 2, 2, parametric=True) * Dx(u.dt(2), 1)) * v * dx)',
    'V = VForm(3, spacetime=True)\nu, v = V.basisfuns()\n'
    'V.add(Dx(Dx(Dx(u, 0, parametric=True), 1, parametric=True), 2, 2, parametric=True) * Dx(Dx(v, 2, 3, parametric=True), 1, parametric=True) * dx)',
    # documented examples of docs/source/guide/vforms.rst and the Laplace-type forms with Hessians
    'V = VForm(2)\nu, v = V.basisfuns()\nV.add(inner(grad(u), grad(v)) * dx)',
    'V = VForm(3)\nu, v = V.basisfuns()\nV.add(inner(grad(u), grad(v)) * dx)',
    'V = VForm(2)\nu, v = V.basisfuns()\nV.add(tr(hess(u)) * tr(hess(v)) * dx)',
    'V = VForm(3, arity=1)\nu = V.basisfuns()\nV.add(inner(hess(u), hess(u)) * dx)',
    'V = VForm(1)\nu, v = V.basisfuns()\nV.add(Dx(Dx(u, 0), 0) * Dx(v, 0) * dx)',
    'V = VForm(2)\nu, v = V.basisfuns(components=(2, 2))\nV.add(inner(grad(u), grad(v)) * dx)',
    'V = VForm(2)\nu, v = V.basisfuns(components=(2, 1))\nV.add(div(u) * v * dx)',
    'V = VForm(3)\nu, v = V.basisfuns(components=(3, 3))\nV.add(inner(curl(u), curl(v)) * dx)',
    'V = VForm(2, geo_dim=3)\nu, v = V.basisfuns()\nV.add(u * v * ds)',
    'V = VForm(1, geo_dim=2)\nu, v = V.basisfuns()\nV.add(u * v * ds)',
    'V = VForm(2, boundary=True, arity=1)\nv = V.basisfuns()\ng = V.input("g", shape=(2,))\nV.add(inner(g, V.normal) * v * ds)',
    'V = VForm(3, boundary=True, arity=1)\nv = V.basisfuns()\nV.add(v * ds)',
    'V = VForm(2)\nu, v = V.basisfuns()\nf = V.input("f")\nV.add(inner(grad(f), grad(u)) * v * dx)',
    'V = VForm(2)\nu, v = V.basisfuns()\nf = V.input("f")\nV.add(tr(hess(f)) * u * v * dx)',
    'V = VForm(2)\nu, v = V.basisfuns()\ng = V.input("g", shape=(2,))\nV.add(div(g) * u * v * dx + inner(g, grad(u)) * v * dx)',
    'V = VForm(2)\nu, v = V.basisfuns()\npf = V.input("pf", physical=True)\nV.add(tr(hess(pf)) * u * v * dx)',
    'V = VForm(2)\nu, v = V.basisfuns()\nf = V.input("f")\nV.add((sin(f) * u * v + cos(f) * u * v) * dx)',
    'V = VForm(2)\nu, v = V.basisfuns()\nf = V.input("f")\nV.add(((f + (-1.0)) * u * v + (f + (-2.0)) * u * v) * dx)',
    'V = VForm(2)\nu, v = V.basisfuns()\nV.add(inner(grad(V.Geo)[0, :], grad(u)) * v * dx)',
    'V = VForm(2)\nu, v = V.basisfuns()\nf = V.input("f")\nV.add(Dx(f / u, 0) * v * dx)',
    'V = VForm(2)\nu, v = V.basisfuns()\nf = V.input("f")\ng = V.input("g", shape=(2,))\nV.add(inner(grad(f * u / (g[0] + 2.0)), grad(v)) * dx)',
    'V = VForm(3, arity=1)\nu = V.basisfuns()\nf = V.input("f")\nc = V.parameter("c")\nV.add(div(grad(c * f * u - u / f)) * dx)',
    'V = VForm(2)\nu, v = V.basisfuns()\nB = V.let("B", V.W * dot(V.JacInv, V.JacInv.T), symmetric=True)\nV.add(B.dot(grad(u, parametric=True)).dot(grad(v, parametric=True)))',
]


def gen_specs(rng, n_grammar, n_twins, n_malformed, max_depth=4, n_mirror=None):
    g = Gen(rng, max_depth)
    specs = [{'code': c, 'stream': 'library', 'kind': 'library'} for c in LIBRARY]
    for _ in range(n_twins // 2 if n_mirror is None else n_mirror):
        specs.append(g.form('mirror'))
    for _ in range(n_grammar):
        specs.append(g.form('grammar'))
    for _ in range(n_twins):
        specs.append(g.form('twins'))
    for _ in range(n_malformed):
        specs.append(g.form('malformed'))
    return specs
