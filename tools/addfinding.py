"""tools/addfinding.py <property> <status fixed|open> <commit or -> <signature> <what...>"""
import json, sys, os
V = os.path.dirname(os.path.dirname(os.path.abspath(__file__)))
p = os.path.join(V, 'known_findings.json')
d = json.load(open(p))
prop, status, commit, sig = sys.argv[1:5]
what = ' '.join(sys.argv[5:])
e = {'property': prop, 'status': status, 'signature': sig}
if status == 'fixed':
    e['commit'] = commit
    e['line'] = 'fixed: property=%s %s %s' % (prop, commit, what)
else:
    e['what'] = what
d['findings'] = [f for f in d['findings'] if not (f['property'] == prop and f['signature'] == sig)] + [e]
json.dump(d, open(p, 'w'), indent=1)
