(* C16 -- lemmas, fourth part: kronecker.apply_kronecker's own dispatch (kronecker.py:6-12). *)
From Coq Require Import List Arith Bool Lia Ring.
From Verif.C16 Require Import Model Proofs Proofs2.
Import ListNotations.

Section Proofs4.
Variable R : Type.
Variables (rO rI : R) (radd rmul rsub : R -> R -> R) (ropp : R -> R).
Variable Rth : ring_theory rO rI radd rmul rsub ropp eq.

Notation sumn := (Model.sumn R rO radd).
Local Notation kron_ent := (Proofs2.kron_ent R rI rmul).
Notation omats ops := (map (omat R) ops).
Notation orows ops := (map (fun o => mrows R (omat R o)) ops).
Notation ocols ops := (map (fun o => mcols R (omat R o)) ops).
Notation asabstract ops := (map (fun o => mkop R Abstract (omat R o)) ops).

Lemma omats_abstract : forall ops : list (operand R), omats (asabstract ops) = omats ops.
Proof. intros. rewrite map_map. reflexivity. Qed.
Lemma orows_abstract : forall ops : list (operand R), orows (asabstract ops) = orows ops.
Proof. intros. rewrite map_map. reflexivity. Qed.
Lemma squares_abstract : forall ops : list (operand R), squares R ops -> squares R (asabstract ops).
Proof. unfold squares. intros ops H. apply Forall_map. exact H. Qed.

(* apply_kronecker: all ndarrays -> tensordot path; otherwise every factor is wrapped by
   aslinearoperator and the column-major sweeps run.  For square factors (the documented domain)
   both branches give the Kronecker matrix times x; vectors ... *)
Lemma apply_kronecker_vec_l : forall (ops : list (operand R)) (x : arr R) i,
  squares R ops -> ashape R x = [prodl (orows ops)] -> (i < prodl (orows ops))%nat ->
  aat R (apply_kronecker R rO radd rmul ops x) [i] =
  sumn (prodl (orows ops)) (fun j => rmul (kron_ent (omats ops) i j) (aat R x [j])).
Proof.
  intros ops x i Hsq Hx Hi. unfold apply_kronecker.
  destruct (forallb (is_dense R) ops).
  - rewrite <- (squares_orows R ops Hsq) in *.
    rewrite (squares_orows R ops Hsq) in Hi.
    apply (kron_dense_vec_l R rO rI radd rmul rsub ropp Rth); assumption.
  - rewrite <- (omats_abstract ops), <- (orows_abstract ops) in *.
    apply (kron_linops_vec_l R rO rI radd rmul rsub ropp Rth); auto.
    apply squares_abstract. assumption.
Qed.

(* ... and (N,m) arguments *)
Lemma apply_kronecker_mat_l : forall (ops : list (operand R)) (x : arr R) m i c,
  squares R ops -> ashape R x = [prodl (orows ops); m] -> (i < prodl (orows ops))%nat -> (c < m)%nat ->
  aat R (apply_kronecker R rO radd rmul ops x) [i; c] =
  sumn (prodl (orows ops)) (fun j => rmul (kron_ent (omats ops) i j) (aat R x [j; c])).
Proof.
  intros ops x m i c Hsq Hx Hi Hc. unfold apply_kronecker.
  destruct (forallb (is_dense R) ops).
  - rewrite <- (squares_orows R ops Hsq) in *.
    rewrite (squares_orows R ops Hsq) in Hi.
    apply (kron_dense_mat_l R rO rI radd rmul rsub ropp Rth ops x m); assumption.
  - rewrite <- (omats_abstract ops), <- (orows_abstract ops) in *.
    apply (kron_linops_mat_l R rO rI radd rmul rsub ropp Rth _ x m); auto.
    apply squares_abstract. assumption.
Qed.

End Proofs4.
