(* Driver of the extracted exact model of C02 (coq/C02/Extract.v -> c02_model.ml).
   stdin : one case per line:  p nd nkv kv_1 .. kv_nkv nc c_1 .. c_nc u
           integers in decimal; rationals as NUM/DEN, NUM and DEN binary digit strings (MSB first,
           optional leading '-' on NUM, "0" for zero).
   stdout: one line per case:  open_kv|span|row_0;..;row_nd|single_ev_0 .. |spline_ev_0 .. spline_ev_nd
   Only data conversion happens here; every number is computed by the extracted code. *)
open C02_model

let pos_of_bin s =
  let n = String.length s in
  if n = 0 || s.[0] <> '1' then failwith ("bad positive " ^ s);
  let rec go i acc = if i >= n then acc
    else go (i + 1) (match s.[i] with '1' -> XI acc | '0' -> XO acc | _ -> failwith ("bad digit in " ^ s)) in
  go 1 XH
let z_of_bin s =
  if s = "0" then Z0
  else if s.[0] = '-' then Zneg (pos_of_bin (String.sub s 1 (String.length s - 1)))
  else Zpos (pos_of_bin s)
let bin_of_pos p =
  let b = Buffer.create 64 in
  let rec go p = match p with
    | XH -> Buffer.add_char b '1'
    | XO q -> go q; Buffer.add_char b '0'
    | XI q -> go q; Buffer.add_char b '1' in
  go p; Buffer.contents b
let bin_of_z = function Z0 -> "0" | Zpos p -> bin_of_pos p | Zneg p -> "-" ^ bin_of_pos p
let rec nat_of_int n = if n <= 0 then O else S (nat_of_int (n - 1))
let rec int_of_nat = function O -> 0 | S n -> 1 + int_of_nat n
let qc_of_string s =
  match String.index_opt s '/' with
  | None -> failwith ("bad rational " ^ s)
  | Some i -> q2Qc { qnum = z_of_bin (String.sub s 0 i);
                     qden = pos_of_bin (String.sub s (i + 1) (String.length s - i - 1)) }
let string_of_qc (x : qc) = let r = this x in bin_of_z r.qnum ^ "/" ^ bin_of_pos r.qden
let row l = String.concat " " (List.map string_of_qc l)

let () =
  try
    while true do
      let line = input_line stdin in
      let t = Array.of_list (List.filter (fun s -> s <> "") (String.split_on_char ' ' line)) in
      if Array.length t > 0 then begin
        let p = int_of_string t.(0) and nd = int_of_string t.(1) and nkv = int_of_string t.(2) in
        let kv = List.init nkv (fun i -> qc_of_string t.(3 + i)) in
        let nc = int_of_string t.(3 + nkv) in
        let c = List.init nc (fun i -> qc_of_string t.(4 + nkv + i)) in
        let u = qc_of_string t.(4 + nkv + nc) in
        let np = nat_of_int p in
        let (((s, ad), sev), evs) = ex_point kv np (nat_of_int nd) c u in
        print_string (if open_kv kv np then "1" else "0");
        print_char '|'; print_int (int_of_nat s);
        print_char '|'; print_string (String.concat ";" (List.map row ad));
        print_char '|'; print_string (row sev);
        print_char '|'; print_string (row evs);
        print_newline ()
      end
    done
  with End_of_file -> ()
