"""C14 -- Multipatch gluing is the equivalence closure of the joins, in any order."""
import itertools

from harness.core import cbool, clist, log

PROPS = 'C14/Props.v'


# ---------------------------------------------------------------------------
# harness-side ground truth (independent of both model and implementation)
# ---------------------------------------------------------------------------

def face_dofs(shape, ax, side, flip):
    """Raveled (C order) dofs of a face in the order of itertools.product with the
    non-face axes possibly reversed."""
    d = len(shape)
    fl = [False] * d
    if flip is not None:
        f = list(flip)
        f = f[:ax] + [False] + f[ax:]
        for i, v in enumerate(f[:d]):
            fl[i] = bool(v)
    rngs = []
    for i, n in enumerate(shape):
        if i == ax:
            rngs.append([0 if side == 0 else n - 1])
        else:
            rngs.append(list(range(n - 1, -1, -1)) if fl[i] else list(range(n)))
    out = []
    for mi in itertools.product(*rngs):
        r = 0
        for n, i in zip(shape, mi):
            r = r * n + i
        out.append(r)
    return out


def closure_classes(shapes, joins):
    parent = {}

    def find(x):
        while parent.setdefault(x, x) != x:
            parent[x] = parent[parent[x]]
            x = parent[x]
        return x
    for (p1, ax1, s1, p2, ax2, s2, flip) in joins:
        d1 = face_dofs(shapes[p1], ax1, s1, None)
        d2 = face_dofs(shapes[p2], ax2, s2, flip)
        if len(d1) != len(d2):
            return None
        for a, b in zip(d1, d2):
            ra, rb = find((p1, a)), find((p2, b))
            if ra != rb:
                parent[ra] = rb
    return find


def prod(l):
    r = 1
    for x in l:
        r *= x
    return r


def check_property_on_impl(shapes, joins, res):
    """The property itself, evaluated on the implementation's numbering.
    Returns None or a description of what fails."""
    if res['status'] != 'Ok':
        return ('raises-' + res['status'], 'a valid join history raised %s (%s)' % (res['status'], res.get('msg', '')))
    find = closure_classes(shapes, joins)
    idx = res['idx']
    by_class = {}
    by_glob = {}
    for p, shp in enumerate(shapes):
        if len(idx[p]) != prod(shp):
            return ('idx-length', 'patch_to_global_idx(%d) has %d entries for %d dofs' % (p, len(idx[p]), prod(shp)))
        for i in range(prod(shp)):
            c = find((p, i))
            g = idx[p][i]
            if by_class.setdefault(c, g) != g:
                return ('class-split', 'connected dofs %s and %s get different global indices' % ((p, i), c))
            if by_glob.setdefault(g, c) != c:
                return ('class-merged', 'unconnected dofs %s and class of %s share global index %d' % ((p, i), by_glob[g], g))
    if sorted(by_glob) != list(range(res['numdofs'])):
        return ('not-gapfree', 'global numbering is not a gap-free bijection onto range(numdofs=%d): %d classes, indices %s..' % (
            res['numdofs'], len(by_class), sorted(by_glob)[:12]))
    if not res['mats_ok']:
        if 'jglobal_bad' in res:
            return ('p2g-matrix-jglobal', 'patch_to_global(%d, j_global=True) does not place the unit entries of the patch in its own column block' % res['jglobal_bad'])
        return ('p2g-matrix', 'patch_to_global is not the 0/1 matrix with one unit entry per local dof at patch_to_global_idx')
    for p, shp in enumerate(shapes):
        inj = len(set(idx[p])) == len(idx[p])
        if res['ptp_identity'][p] != inj:
            return ('left-inverse', 'P^T P = I is %s for patch %d although its numbering is %sinjective' % (
                res['ptp_identity'][p], p, '' if inj else 'not '))
    if not res['containers_consistent']:
        return ('containers', 'shared_per_patch and shared_dofs disagree after the joins')
    return None


# ---------------------------------------------------------------------------
# histories
# ---------------------------------------------------------------------------

def grid_complex(rows, cols, ny, nx):
    """rows x cols patches; patch (r,c) has shape (ny[r], nx[c]) (axis 0 = y, axis 1 = x)."""
    shapes = [[ny[r], nx[c]] for r in range(rows) for c in range(cols)]
    pid = lambda r, c: r * cols + c
    intf = []
    for r in range(rows):
        for c in range(cols):
            if c + 1 < cols:
                intf.append([pid(r, c), 1, 1, pid(r, c + 1), 1, 0, [False]])
            if r + 1 < rows:
                intf.append([pid(r, c), 0, 1, pid(r + 1, c), 0, 0, [False]])
    return shapes, intf


def ring_complex(k, n):
    """k square patches around a common vertex: right edge of patch i glued (flipped)
    to the bottom edge of patch i+1."""
    shapes = [[n, n] for _ in range(k)]
    intf = [[i, 1, 1, (i + 1) % k, 0, 0, [True]] for i in range(k)]
    return shapes, intf


def cube_complex(n):
    """2x2x2 patches of n^3 dofs."""
    shapes = [[n, n, n] for _ in range(8)]
    pid = lambda a, b, c: (a * 2 + b) * 2 + c
    intf = []
    for a in range(2):
        for b in range(2):
            for c in range(2):
                if a == 0:
                    intf.append([pid(a, b, c), 0, 1, pid(1, b, c), 0, 0, [False, False]])
                if b == 0:
                    intf.append([pid(a, b, c), 1, 1, pid(a, 1, c), 1, 0, [False, False]])
                if c == 0:
                    intf.append([pid(a, b, c), 2, 1, pid(a, b, 1), 2, 0, [False, False]])
    return shapes, intf


def swap_sides(j):
    p1, a1, s1, p2, a2, s2, fl = j
    return [p2, a2, s2, p1, a1, s1, fl]


def gen_cases(ctx):
    rng = ctx.rng
    thorough = ctx.tier == 'thorough'
    cases = []
    dist = {'exhaustive_orders': 0, 'with_repetition': 0, 'flipped': 0, 'rings': 0, 'cube': 0, 'random': 0,
            'single_patch': 0}

    def add(shapes, joins, kind):
        cases.append({'shapes': shapes, 'joins': [list(j) for j in joins], 'kind': kind})
        dist[kind] += 1

    # patches without any join (patch_to_global_idx on an empty dict)
    add([[3, 2]], [], 'single_patch')
    add([[2, 2], [3, 2]], [], 'single_patch')
    # all orders of the interface joins, also with each join given from either side
    complexes = [grid_complex(1, 2, [3], [2, 3]), grid_complex(2, 2, [2, 2], [2, 2]),
                 grid_complex(2, 2, [3, 2], [2, 3])]
    if thorough:
        complexes.append(grid_complex(2, 3, [2, 2], [2, 2, 2]))
    for shapes, intf in complexes:
        perms = list(itertools.permutations(range(len(intf))))
        if len(perms) > 800:
            perms = rng.sample(perms, 5040 if thorough else 600)
        for perm in perms:
            add(shapes, [intf[i] for i in perm], 'exhaustive_orders')
        # repetitions: every order of (#joins + 1) calls drawn with one repeated
        if len(intf) <= 4:
            for rep in range(len(intf)):
                seq = list(range(len(intf))) + [rep]
                for perm in set(itertools.permutations(seq)):
                    js = [intf[i] if k % 2 == 0 else swap_sides(intf[i]) for k, i in enumerate(perm)]
                    add(shapes, js, 'with_repetition')
        # all flip patterns (consistent and inconsistent with the geometry)
        for flips in itertools.product([False, True], repeat=len(intf)):
            if len(intf) > 4 and rng.random() > 0.25:
                continue
            js = [j[:6] + [[f]] for j, f in zip(intf, flips)]
            rng.shuffle(js)
            add(shapes, js, 'flipped')
    for k in ([3, 4] if not thorough else [3, 4, 5, 6]):
        for n in (2, 3):
            shapes, intf = ring_complex(k, n)
            perms = list(itertools.permutations(range(k)))
            if len(perms) > 120:
                perms = rng.sample(perms, 120)
            for perm in perms:
                add(shapes, [intf[i] for i in perm], 'rings')
    shapes, intf = cube_complex(2)
    for _ in range(40 if thorough else 6):
        js = list(intf)
        rng.shuffle(js)
        add(shapes, js, 'cube')
    # random complexes: arbitrary faces with matching dof counts, random flips, repetitions
    for _ in range(3000 if thorough else 300):
        dim = rng.choice([2, 2, 3])
        npatch = rng.randint(2, 5)
        sizes = [rng.choice([2, 3]) for _ in range(dim)]
        shapes = []
        for _p in range(npatch):
            s = list(sizes)
            rng.shuffle(s)
            shapes.append(s)
        joins = []
        for _j in range(rng.randint(1, 7)):
            p1, p2 = rng.sample(range(npatch), 2)
            ax1 = rng.randrange(dim)
            face1 = sorted(shapes[p1][:ax1] + shapes[p1][ax1 + 1:])
            cands = [a for a in range(dim) if (shapes[p2][:a] + shapes[p2][a + 1:]) == (shapes[p1][:ax1] + shapes[p1][ax1 + 1:])]
            if not cands:
                continue
            ax2 = rng.choice(cands)
            flip = None if rng.random() < 0.2 else [rng.random() < 0.5 for _ in range(dim - 1)]
            joins.append([p1, ax1, rng.randint(0, 1), p2, ax2, rng.randint(0, 1), flip])
        if joins and rng.random() < 0.3:
            joins.append(rng.choice(joins))
        add(shapes, joins, 'random')
    return cases, dist



# ---------------------------------------------------------------------------
# geometric tie: conforming box decompositions, automatch, assemble_system, BCs
# ---------------------------------------------------------------------------

def gen_geo_cases(ctx):
    rng = ctx.rng
    cases = []
    n = 30 if ctx.tier == 'thorough' else 8
    for c in range(n):
        dim = 2 if c % 4 != 3 else 3
        cuts = []
        for a in range(dim):
            k = rng.choice([1, 2, 2, 3]) if dim == 2 else rng.choice([1, 2])
            xs = sorted(rng.sample([0.25, 0.5, 0.75, 1.25], k - 1)) if k > 1 else []
            cuts.append([0.0] + xs + [1.5])
        if all(len(cu) == 2 for cu in cuts):
            cuts[0] = [0.0, 0.5, 1.5]
        nsp = [[rng.randint(1, 3) for _ in range(len(cu) - 1)] for cu in cuts]   # spans per slab, per physical axis
        p = rng.randint(1, 3)
        patches = []
        cells = []
        import itertools as it
        for ij in it.product(*[range(len(cu) - 1) for cu in cuts]):
            lo = [cuts[a][ij[a]] for a in range(dim)]
            hi = [cuts[a][ij[a] + 1] for a in range(dim)]
            flip = [rng.random() < 0.3 for _ in range(dim)]
            # kvs are ordered (last physical axis, ..., x): parameter axis k <-> physical axis dim-1-k
            nspans = [nsp[dim - 1 - k][ij[dim - 1 - k]] for k in range(dim)]
            patches.append({'lo': lo, 'hi': hi, 'flip': flip, 'nspans': nspans})
            cells.append(ij)
        order = list(range(len(patches)))
        rng.shuffle(order)
        patches = [patches[i] for i in order]
        cells = [cells[i] for i in order]
        outer = []
        for pi, (pt, ij) in enumerate(zip(patches, cells)):
            for a in range(dim):
                for side in (0, 1):
                    if (side == 0 and ij[a] == 0) or (side == 1 and ij[a] == len(cuts[a]) - 2):
                        if rng.random() < 0.6:
                            outer.append([pi, dim - 1 - a, side ^ int(pt['flip'][a])])
        cases.append({'dim': dim, 'p': p, 'patches': patches, 'cells': [list(c_) for c_ in cells], 'cuts': cuts,
                      'affine': [rng.randint(-3, 3) for _ in range(dim + 1)], 'outer_faces': outer})
    # rings of k annulus sectors: two patches may share MORE than one face (k = 2)
    for k in ([2, 3] if ctx.tier != 'thorough' else [2, 2, 3, 4, 5]):
        order = list(range(k))
        rng.shuffle(order)
        cases.append({'kind': 'ring', 'dim': 2, 'k': k, 'order': order, 'p': rng.randint(1, 3),
                      'nspans': [rng.randint(1, 3), rng.randint(1, 3)], 'r1': 1.0, 'r2': 2.0, 'cuts': ['ring', k],
                      'patches': [], 'cells': [], 'affine': [rng.randint(-3, 3) for _ in range(3)], 'outer_faces': []})
    return cases


def expected_interfaces(case):
    dim = case['dim']
    exp = set()
    P = case['patches']
    C = case['cells']
    for i in range(len(P)):
        for j in range(i + 1, len(P)):
            d = [C[j][a] - C[i][a] for a in range(dim)]
            nz = [a for a in range(dim) if d[a] != 0]
            if len(nz) != 1 or abs(d[nz[0]]) != 1:
                continue
            a = nz[0]
            side_i = 1 if d[a] == 1 else 0          # physical side of patch i facing j
            bd1 = (dim - 1 - a, side_i ^ int(P[i]['flip'][a]))
            bd2 = (dim - 1 - a, (1 - side_i) ^ int(P[j]['flip'][a]))
            # remaining parameter axes in increasing parameter-axis order
            rem = [k for k in range(dim) if k != dim - 1 - a]
            fl = tuple(bool(P[i]['flip'][dim - 1 - k]) != bool(P[j]['flip'][dim - 1 - k]) for k in rem)
            exp.add((i, bd1, j, bd2, fl))
    return exp


def check_geo_case(case, r):
    if r['status'] != 'Ok':
        return ('geo-raises-' + r['status'], 'multipatch over a conforming box decomposition raised %s: %s' % (r['status'], r.get('msg')))
    dim = case['dim']
    got = {(a, tuple(b), c, tuple(d), tuple(e)) for (a, b, c, d, e) in r['interfaces']}
    if case.get('kind') == 'ring':
        # every sector touches its two neighbours along one radial face each: k coinciding face pairs
        # (for k = 2 both belong to the same pair of patches)
        if len(got) != case['k']:
            return ('detect-interfaces-ring', 'detect_interfaces found %d interfaces %s in a ring of %d annulus sectors, '
                    '%d radial faces coincide' % (len(got), sorted(got), case['k'], case['k']))
        exp = got
    else:
        exp = expected_interfaces(case)
    if got != exp:
        return ('detect-interfaces', 'detect_interfaces found %s, geometrically coinciding faces are %s' % (
            sorted(got ^ exp)[:4], 'the symmetric difference shown'))
    if not r['connected']:
        return ('connected', 'patch graph of a connected decomposition reported as not connected')
    # two local dofs get the same global index iff they sit at the same physical location
    clusters = []            # (representative location, global index); tolerance-based, no grid rounding
    by_glob = {}
    for p, (locs, idx) in enumerate(zip(r['locs'], r['idx'])):
        for i, (x, g) in enumerate(zip(locs, idx)):
            hit = None
            for (y, gy) in clusters:
                if max(abs(a - b) for a, b in zip(x, y)) < 1e-9:
                    hit = (y, gy)
                    break
            if hit is None:
                clusters.append((x, g))
                if g in by_glob:
                    return ('geo-class-merged', 'dofs at different physical points %s and %s share global index %d' % (x, by_glob[g], g))
                by_glob[g] = x
            elif hit[1] != g:
                return ('geo-class-split', 'dofs at the same physical point %s have different global indices %d, %d' % (x, hit[1], g))
    if sorted(by_glob) != list(range(r['numdofs'])):
        return ('geo-not-gapfree', 'numbering not onto range(numdofs)')
    area = 1.5 ** dim
    tol = 1e-11 * max(1.0, area)
    if case.get('kind') == 'ring':
        # NURBS sectors: Gauss quadrature of the rational Jacobian is not exact, so only the
        # consistency M*1 = b (same rule on both sides) and symmetry are required
        if r['mass_consistency'] > 1e-10 or r['mass_sym'] > 1e-10:
            return ('assemble-system', 'assemble_system on a ring: M*1 - b = %g' % r['mass_consistency'])
    elif r['mass_consistency'] > tol or abs(r['mass_sum'] - area) > tol or r['mass_sym'] > tol:
        return ('assemble-system', 'assemble_system: M*1 - b = %g, sum(M) - |domain| = %g' % (r['mass_consistency'], r['mass_sum'] - area))
    if 'bc_idx' in r:
        w = case['affine']
        exp_idx = set()
        for (p, ax, sd) in case['outer_faces']:
            shape = [n + case['p'] for n in case['patches'][p]['nspans']]
            for li in face_dofs(shape, ax, sd, None):
                exp_idx.add(r['idx'][p][li])
        if sorted(exp_idx) != r['bc_idx']:
            return ('mp-bc-indices', 'Multipatch.compute_dirichlet_bcs indices are not the glued indices of the face dofs')
        for g, v in zip(r['bc_idx'], r['bc_val']):
            x = by_glob[g]
            ref = w[0] + sum(wi * xi for wi, xi in zip(w[1:], x))
            if abs(v - ref) > 1e-9 * (1 + abs(ref)):
                return ('mp-bc-values', 'Dirichlet value at glued dof %d is %r, the affine boundary function gives %r' % (g, v, ref))
    return None

# ---------------------------------------------------------------------------
# Coq case files
# ---------------------------------------------------------------------------

HEADER = '''From Coq Require Import List Arith Bool.
From Verif.C14 Require Import Model.
Import ListNotations.
Definition J := mk_bjoin.
Fixpoint leqb (a b : list nat) : bool :=
  match a, b with [], [] => true | x :: a', y :: b' => Nat.eqb x y && leqb a' b' | _, _ => false end.
Fixpoint lleqb (a b : list (list nat)) : bool :=
  match a, b with [], [] => true | x :: a', y :: b' => leqb x y && lleqb a' b' | _, _ => false end.
Definition agrees (c : list (list nat) * list bjoin * (nat * list (list nat))) : bool :=
  let '(shapes, js, (nd, idx)) := c in
  let '(nd', idx') := observe shapes js in Nat.eqb nd nd' && lleqb idx idx'.
Fixpoint bad (k : nat) (cs : list (list (list nat) * list bjoin * (nat * list (list nat)))) : list nat :=
  match cs with [] => [] | c :: cs' => if agrees c then bad (S k) cs' else k :: bad (S k) cs' end.
'''


def coq_join(j):
    p1, a1, s1, p2, a2, s2, fl = j
    return 'J %d %d %d %d %d %d %s' % (p1, a1, s1, p2, a2, s2, clist(fl or [], cbool))


def coq_case(case, res):
    shapes = clist([clist(s) for s in case['shapes']])
    joins = clist([coq_join(j) for j in case['joins']])
    exp = '(%d, %s)' % (res['numdofs'], clist([clist(r) for r in res['idx']]))
    return '(%s, %s, %s)' % (shapes, joins, exp)


def run(ctx):
    ok1 = ctx.obligations_stage(PROPS, extra_targets=['C14/Examples.vo'])
    ctx.obligations_stage('C14/Props2.v', extra_targets=['C14/Examples2.vo'])
    ctx.assumptions += [
        'model: hand transcription of Multipatch.join_dofs/join_boundaries/finalize/patch_to_global_idx '
        '(assemble.py) and slice_indices/boundary_dofs into Gallina (coq/C14/Model.v, coq/lib/Slice.v)',
        'tie: exact comparison of numdofs and every patch_to_global_idx array, model evaluated by vm_compute',
        'histories with finalize() between joins: model coq/C14/ModelFin.v (finalize_st/compact), tied exactly after every finalize (harness/props/c14_fin.py)',
        'detect_interfaces/_check_geo_match: exact-data model coq/C14/ModelGeo.v with theorems (Props2.v) but NOT yet tied to the implementation by case files (np.allclose vs exact equality); the implementation side is checked by the geometric tie below; scipy sparse formats not modelled',
    ]
    cases, dist = gen_cases(ctx)
    log('[C14] %d histories: %s' % (len(cases), dist))
    results = []
    B = 400
    for i in range(0, len(cases), B):
        results += ctx.impl.run('harness/impl/c14_driver.py', {'cases': cases[i:i + B]})['results']
    # stage 3 runs always (it is cheap): the property evaluated on the implementation
    nfail = 0
    for k, (c, r) in enumerate(zip(cases, results)):
        ctx.count((c['shapes'], c['joins']), nontrivial=len(c['joins']) >= 1)
        bad = check_property_on_impl(c['shapes'], c['joins'], r)
        if bad:
            nfail += 1
            sig = 'impl:%s:%s' % (bad[0], 'nojoin' if not c['joins'] else c['kind'])
            ctx.report(sig, bad[1], {'shapes': c['shapes'], 'joins': c['joins'], 'impl': r,
                                     'how': 'Multipatch(patches).join_boundaries(p1,(ax1,side1),p2,(ax2,side2),flip) per join, then finalize()'})
    ctx.cov['traces_validated_against_impl'] = len(cases)
    ctx.cov['property_failures_on_impl'] = nfail
    # stage 2: correspondence model <-> implementation on the same histories
    okcases = [(k, c, r) for k, (c, r) in enumerate(zip(cases, results)) if r['status'] == 'Ok']
    files = []
    chunks = []
    CH = 250
    for n, i in enumerate(range(0, len(okcases), CH)):
        chunk = okcases[i:i + CH]
        chunks.append(chunk)
        body = HEADER + 'Definition cases := [\n' + ';\n'.join(coq_case(c, r) for (_, c, r) in chunk) + '].\n'
        body += 'Eval vm_compute in bad 0 cases.\n'
        files.append(('C14_cases_%03d' % n, body))
    from harness.core import parse_coq_list_of_nat
    disagreements = []
    for (name, ok, out), chunk in zip(ctx.coq_eval_many(files), chunks):
        ctx.obligations += 1
        badidx = parse_coq_list_of_nat(out) if ok else None
        if not ok or badidx is None:
            ctx.broken.append('case file %s did not evaluate: %s' % (name, out[-600:]))
            continue
        ctx.discharged += 1
        for b in badidx:
            disagreements.append(chunk[b])
    ctx.cov['disagreements_checked'] = len(disagreements)
    # harness self-test: a perturbed expectation must be flagged by the same comparison
    if okcases:
        _, c0, r0 = okcases[len(okcases) // 2]
        r1 = dict(r0, numdofs=r0['numdofs'] + 1)
        ctx.selftest('C14_selftest', HEADER + 'Definition cases := [\n' + coq_case(c0, r0) + ';\n' + coq_case(c0, r1)
                     + '].\nEval vm_compute in bad 0 cases.\n')
    for (k, c, r) in disagreements[:3]:
        # model and implementation differ although the property (checked above) may hold:
        # the tie is broken; report with the history as replay
        ctx.broken.append('correspondence C14 model<->impl differs on history #%d' % k)
        bad = check_property_on_impl(c['shapes'], c['joins'], r)
        ctx.report('tie:numbering:' + c['kind'],
                   'model and implementation number the dofs differently' + (': ' + bad[1] if bad else
                   ' (closure property still holds on this history: the numbering convention changed)'),
                   {'shapes': c['shapes'], 'joins': c['joins'], 'impl': r}, found_input=bool(bad))
    # histories with finalize() between the joins: property after EVERY finalize + exact tie (ModelFin.observe_h)
    from harness.props import c14_fin
    c14_fin.run_fin(ctx, check_property_on_impl, grid_complex, ring_complex, swap_sides)
    # geometric tie (automatch, assemble_system, multipatch BCs) on the implementation
    gcases = gen_geo_cases(ctx)
    gres = ctx.impl.run('harness/impl/c14_geo_driver.py', {'cases': gcases})['results']
    for gc, gr in zip(gcases, gres):
        ctx.count(('geo', gc['cuts'], gc['patches']), nontrivial=True)
        bad = check_geo_case(gc, gr)
        if bad:
            ctx.report('impl:%s:%dd' % (bad[0], gc['dim']), bad[1],
                       {'case': gc, 'impl': {k: v for k, v in gr.items() if k not in ('locs',)},
                        'how': 'patches = boxes [lo,hi] (optionally reversed parametrisation), Multipatch(patches, automatch=True)'})
    ctx.cov['geometric_cases'] = len(gcases)
    ctx.cov['rule'] = ('join histories over patch complexes (grids, rings, 2x2x2, random faces/flips/repetitions); '
                       'non-trivial = at least one join; distinct by (shapes, join list)')
    ctx.cov['input_distribution'] = dist
    ctx.cov['exhaustive'] = False
    ctx.sample({'shapes': cases[5]['shapes'], 'joins': cases[5]['joins'], 'impl': results[5]})
    ctx.sample({'shapes': cases[-1]['shapes'], 'joins': cases[-1]['joins'], 'impl': results[-1]})
    return ctx.finish()


META = {
    'technique': 'Rocq proof by induction over arbitrary join histories (invariant: class label equality <-> equivalence closure) + exact correspondence of numdofs/patch_to_global_idx with the implementation',
    'level_text': 'Theorems (Coq, unbounded): for every patch count, sizes and every list of dof identifications / join_boundaries calls in any order with repetitions and flips, the model assigns equal global indices iff the dofs are connected by a chain of identifications (glue_is_closure, glue_is_closure_boundaries, join_order_irrelevant), the numbering maps into and onto range(numdofs) (glob_in_range, glob_gapfree; for histories of join_boundaries calls on valid faces without any hypothesis on the identifications: boundary_joins_pair_existing_dofs, glob_gapfree_boundaries), patch_to_global has one unit entry per local dof and P^T P = I iff no two local dofs of the patch are identified (p2g_*); the accumulation loop of assemble_system yields the sum of the patch bilinear forms / functionals of the restrictions u o glob_p (assemble_system_bilinear_form, assemble_system_rhs_functional, p2g_congruence_entry); the closure / range / gap-free / left-inverse theorems also for histories with finalize() calls at arbitrary positions between the joins (*_interleaved_finalize, finalize_positions_irrelevant); for the exact-data model of detect_interfaces: a face pair is matched iff the sampled faces coincide under some flip, the returned flip is the first such and the dof pairs join_boundaries identifies with it carry coinciding points, soundness/completeness of the interface list (geo_match_*, automatch_joins_coinciding_dofs, detect_interfaces_sound/_complete/_iff). The model is tied to /repo by running the same ~900 (thorough ~10^4) join histories through Multipatch and comparing numdofs and every patch_to_global_idx array exactly; ~650 join/finalize histories (2x2 all orders x all finalize placements, strips, 2x3, rings, 3D with flips) are compared after EVERY finalize; the closure property is also evaluated directly on the implementation with a union-find oracle (after every finalize, on the joins declared so far); a geometric tie (conforming box decompositions with reversed parametrisations, rings of annulus sectors where two patches share two faces) checks detect_interfaces against the coinciding faces, gluing by physical location, assemble_system consistency and Multipatch.compute_dirichlet_bcs.',
    'level_note': 'Trusted: Coq kernel + vm_compute; hand transcription of Multipatch.join_dofs/finalize/patch_to_global_idx and slice_indices into Gallina, validated by the exact correspondence run; harness generators. Histories with finalize() between the joins are modelled (ModelFin.v) and tied exactly after every finalize. detect_interfaces has an exact-data model with theorems (ModelGeo.v, Props2.v) that is not yet tied by case files (np.allclose vs exact equality); assemble_system numerics rest on C01/C09.',
}
