(* C08 -- update()/update_params() versus fresh construction, at the level of an abstract
   slot store (pyiga/codegen/cython.py: generate_init 622-637, generate_update 703-724,
   generate_update_params 726-744).

   The generated __init__ stores, for every array variable fed by an input field, the derived
   quantity (value / Jacobian / Hessian on the quadrature grid) into the slots [ofs, ofs+sz) of
   the last axis of self.fields; update(name=field) is generated as one block per array that the
   generator decides to refresh.  Parameters live in the same way in self.constants.
   The model is executable (Definitions); the lemmas follow. *)
From Coq Require Import List Bool Arith Lia.
Import ListNotations.

(* an array variable: (id of the derived quantity, id of the input feeding it, ofs, sz) *)
Definition arr : Type := (nat * nat * nat * nat)%type.
Definition aid (a : arr) : nat := fst (fst (fst a)).
Definition src (a : arr) : nat := snd (fst (fst a)).
Definition ofs (a : arr) : nat := snd (fst a).
Definition sz (a : arr) : nat := snd a.

Definition covers (a : arr) (s : nat) : bool := (ofs a <=? s) && (s <? ofs a + sz a).

Definition arr_eqb (a b : arr) : bool :=
  Nat.eqb (aid a) (aid b) && Nat.eqb (src a) (src b) && Nat.eqb (ofs a) (ofs b) && Nat.eqb (sz a) (sz b).
Definition mem_arr (a : arr) (l : list arr) : bool := existsb (arr_eqb a) l.

Section Slots.
  Variable X V : Type.
  (* D q x k: k-th stored number of derived quantity q of input value x (at one grid point) *)
  Variable D : nat -> X -> nat -> V.

  Definition write_arr (a : arr) (x : X) (st : nat -> V) : nat -> V :=
    fun s => if covers a s then D (aid a) x (s - ofs a) else st s.

  Definition foldw (l : list arr) (val : arr -> X) (st : nat -> V) : nat -> V :=
    fold_left (fun st a => write_arr a (val a) st) l st.

  (* __init__: every array is filled from the input that feeds it *)
  Definition init (arrs : list arr) (env : nat -> X) (st0 : nat -> V) : nat -> V :=
    foldw arrs (fun a => env (src a)) st0.

  (* update(name = x): the generated blocks, each storing the quantity derived from x *)
  Definition update (refreshed : list arr) (x : X) (st : nat -> V) : nat -> V :=
    foldw refreshed (fun _ => x) st.

  Definition override (env : nat -> X) (n : nat) (x : X) : nat -> X :=
    fun k => if Nat.eqb k n then x else env k.

  (* a history of updates (input id, new value); refreshed n = the blocks generated for input n *)
  Definition run_updates (refreshed : nat -> list arr) (ups : list (nat * X)) (st : nat -> V) : nat -> V :=
    fold_left (fun st u => update (refreshed (fst u)) (snd u) st) ups st.
  Definition env_after (env : nat -> X) (ups : list (nat * X)) : nat -> X :=
    fold_left (fun e u => override e (fst u) (snd u)) ups env.
End Slots.
Arguments write_arr {X V}. Arguments foldw {X V}. Arguments init {X V}. Arguments update {X V}.
Arguments override {X}. Arguments run_updates {X V}. Arguments env_after {X}.

(* the layout keeps the arrays apart *)
Definition disjoint_layout (arrs : list arr) : Prop :=
  forall a b s, In a arrs -> In b arrs -> covers a s = true -> covers b s = true -> a = b.

(* THE GENERATOR'S OBLIGATION: update(n) refreshes every array fed by input n, and nothing else *)
Definition refresh_complete (arrs refreshed : list arr) (n : nat) : Prop :=
  (forall a, In a arrs -> src a = n -> In a refreshed) /\
  (forall a, In a refreshed -> In a arrs /\ src a = n).

(* executable versions, evaluated on the tables read off the generated text *)
Definition layout_okb (arrs : list arr) : bool :=
  forallb (fun a => forallb (fun b =>
     arr_eqb a b || (ofs a + sz a <=? ofs b) || (ofs b + sz b <=? ofs a)) arrs) arrs.
Definition refresh_okb (arrs refreshed : list arr) (n : nat) : bool :=
  forallb (fun a => negb (Nat.eqb (src a) n) || mem_arr a refreshed) arrs &&
  forallb (fun a => mem_arr a arrs && Nat.eqb (src a) n) refreshed.
(* whole generated class: layout, one refresh list per updatable input, and no updatable input
   may feed an array outside the updatable store (temp_fields are consumed once by precompute) *)
Definition update_okb (arrs : list arr) (upd : list (nat * list arr)) (temp_srcs : list nat) : bool :=
  layout_okb arrs &&
  forallb (fun nr => refresh_okb arrs (snd nr) (fst nr)) upd &&
  forallb (fun nr => negb (existsb (Nat.eqb (fst nr)) temp_srcs)) upd.

(* ------------------------------------------------------------------------- *)

Lemma arr_eqb_spec : forall a b, arr_eqb a b = true <-> a = b.
Proof.
  intros [[[a1 a2] a3] a4] [[[b1 b2] b3] b4]. unfold arr_eqb, aid, src, ofs, sz. simpl.
  rewrite !andb_true_iff, !Nat.eqb_eq. split.
  - intros [[[-> ->] ->] ->]. reflexivity.
  - intro E. injection E. auto.
Qed.

Lemma mem_arr_spec : forall a l, mem_arr a l = true <-> In a l.
Proof.
  intros a l. unfold mem_arr. rewrite existsb_exists. split.
  - intros [b [Hb E]]. apply arr_eqb_spec in E. subst. exact Hb.
  - intro H. exists a. split; [exact H | apply arr_eqb_spec; reflexivity].
Qed.

Lemma layout_okb_sound : forall arrs, layout_okb arrs = true -> disjoint_layout arrs.
Proof.
  intros arrs H a b s Ha Hb Ca Cb. unfold layout_okb in H. rewrite forallb_forall in H.
  specialize (H a Ha). rewrite forallb_forall in H. specialize (H b Hb).
  unfold covers in Ca, Cb. apply andb_true_iff in Ca, Cb. destruct Ca as [C1 C2], Cb as [C3 C4].
  apply Nat.leb_le in C1, C3. apply Nat.ltb_lt in C2, C4.
  apply orb_true_iff in H. destruct H as [H|H]; [|apply Nat.leb_le in H; lia].
  apply orb_true_iff in H. destruct H as [H|H]; [apply arr_eqb_spec, H | apply Nat.leb_le in H; lia].
Qed.

Lemma refresh_okb_sound : forall arrs refreshed n,
  refresh_okb arrs refreshed n = true -> refresh_complete arrs refreshed n.
Proof.
  intros arrs refreshed n H. unfold refresh_okb in H. apply andb_true_iff in H. destruct H as [H1 H2].
  rewrite forallb_forall in H1, H2. split.
  - intros a Ha Hs. specialize (H1 a Ha). rewrite Hs, Nat.eqb_refl in H1. simpl in H1.
    apply mem_arr_spec, H1.
  - intros a Ha. specialize (H2 a Ha). apply andb_true_iff in H2. destruct H2 as [M E].
    split; [apply mem_arr_spec, M | apply Nat.eqb_eq, E].
Qed.

Section SlotProofs.
  Variable X V : Type.
  Variable D : nat -> X -> nat -> V.

  Lemma foldw_cons : forall a l val (st : nat -> V),
    foldw D (a :: l) val st = foldw D l val (write_arr D a (val a) st).
  Proof. reflexivity. Qed.

  Lemma foldw_none : forall l val (st : nat -> V) s,
    (forall a, In a l -> covers a s = false) -> foldw D l val st s = st s.
  Proof.
    induction l as [|a l IH]; intros val st s H; [reflexivity|].
    rewrite foldw_cons, IH by (intros b Hb; apply H; right; exact Hb).
    unfold write_arr. rewrite (H a (or_introl eq_refl)). reflexivity.
  Qed.

  Lemma foldw_some : forall l val (st : nat -> V) s a,
    In a l -> covers a s = true -> (forall b, In b l -> covers b s = true -> b = a) ->
    foldw D l val st s = D (aid a) (val a) (s - ofs a).
  Proof.
    induction l as [|b l IH]; intros val st s a Hin Hc Hu; [destruct Hin|].
    rewrite foldw_cons.
    destruct (existsb (fun c => covers c s) l) eqn:E.
    - apply existsb_exists in E. destruct E as [c [Hcl Hcc]].
      assert (c = a) by (apply Hu; [right; exact Hcl | exact Hcc]). subst c.
      apply IH; [exact Hcl | exact Hc |]. intros b' Hb' Hcb'. apply Hu; [right; exact Hb' | exact Hcb'].
    - assert (Hnone : forall c, In c l -> covers c s = false).
      { intros c Hcl. destruct (covers c s) eqn:Ec; [|reflexivity].
        assert (existsb (fun c => covers c s) l = true) by (apply existsb_exists; exists c; auto). congruence. }
      rewrite foldw_none by exact Hnone.
      destruct Hin as [->|Hin]; [|rewrite (Hnone a Hin) in Hc; discriminate].
      unfold write_arr. rewrite Hc. reflexivity.
  Qed.

  Lemma foldw_ext : forall l val (st1 st2 : nat -> V),
    (forall s, st1 s = st2 s) -> forall s, foldw D l val st1 s = foldw D l val st2 s.
  Proof.
    induction l as [|a l IH]; intros val st1 st2 H s; [apply H|].
    rewrite !foldw_cons. apply IH. intro s'. unfold write_arr. destruct (covers a s'); [reflexivity | apply H].
  Qed.

  Lemma init_env_ext : forall arrs (e1 e2 : nat -> X) (st0 : nat -> V),
    (forall k, e1 k = e2 k) -> forall s, init D arrs e1 st0 s = init D arrs e2 st0 s.
  Proof.
    unfold init. induction arrs as [|a l IH]; intros e1 e2 st0 H s; [reflexivity|].
    rewrite !foldw_cons. rewrite (H (src a)). apply IH. exact H.
  Qed.

  Theorem update_equals_fresh_l : forall arrs refreshed n,
    disjoint_layout arrs -> refresh_complete arrs refreshed n ->
    forall (env : nat -> X) (x : X) (st0 : nat -> V) s,
    update D refreshed x (init D arrs env st0) s = init D arrs (override env n x) st0 s.
  Proof.
    intros arrs refreshed n Hd [Hall Honly] env x st0 s. unfold update, init.
    destruct (existsb (fun c => covers c s) arrs) eqn:E.
    - apply existsb_exists in E. destruct E as [a [Ha Hc]].
      assert (Hu : forall b, In b arrs -> covers b s = true -> b = a).
      { intros b Hb Hcb. apply (Hd b a s); assumption. }
      rewrite (foldw_some arrs _ st0 s a Ha Hc Hu).
      destruct (Nat.eq_dec (src a) n) as [Es|Ens].
      + rewrite (foldw_some refreshed _ _ s a (Hall a Ha Es) Hc).
        * unfold override. rewrite Es, Nat.eqb_refl. reflexivity.
        * intros b Hb Hcb. apply Hu; [apply (Honly b Hb) | exact Hcb].
      + rewrite foldw_none.
        * rewrite (foldw_some arrs _ st0 s a Ha Hc Hu). unfold override.
          replace (Nat.eqb (src a) n) with false by (symmetry; apply Nat.eqb_neq; exact Ens). reflexivity.
        * intros b Hb. destruct (covers b s) eqn:Ecb; [|reflexivity]. exfalso.
          destruct (Honly b Hb) as [Hba Hbs]. assert (b = a) by (apply Hu; assumption). subst b. contradiction.
    - assert (Hnone : forall c, In c arrs -> covers c s = false).
      { intros c Hcl. destruct (covers c s) eqn:Ec; [|reflexivity].
        assert (existsb (fun c => covers c s) arrs = true) by (apply existsb_exists; exists c; auto). congruence. }
      rewrite foldw_none by (intros b Hb; apply Hnone, (Honly b Hb)).
      rewrite !foldw_none by exact Hnone. reflexivity.
  Qed.

  Lemma run_updates_ext : forall (refreshed : nat -> list arr) ups (st1 st2 : nat -> V),
    (forall s, st1 s = st2 s) ->
    forall s, run_updates D refreshed ups st1 s = run_updates D refreshed ups st2 s.
  Proof.
    unfold run_updates. induction ups as [|[n x] ups IH]; intros st1 st2 H s; [apply H|].
    simpl fold_left. apply IH. intro s'. unfold update. apply foldw_ext. exact H.
  Qed.

  (* any history of updates leaves the store of a freshly constructed assembler for the final inputs *)
  Theorem update_history_equals_fresh_l : forall arrs (refreshed : nat -> list arr) ups,
    disjoint_layout arrs ->
    (forall u, In u ups -> refresh_complete arrs (refreshed (fst u)) (fst u)) ->
    forall (env : nat -> X) (st0 : nat -> V) s,
    run_updates D refreshed ups (init D arrs env st0) s = init D arrs (env_after env ups) st0 s.
  Proof.
    intros arrs refreshed ups Hd.
    induction ups as [|[n x] ups IH]; intros Hc env st0 s; [reflexivity|].
    change (run_updates D refreshed ((n, x) :: ups) (init D arrs env st0))
      with (run_updates D refreshed ups (update D (refreshed n) x (init D arrs env st0))).
    change (env_after env ((n, x) :: ups)) with (env_after (override env n x) ups).
    rewrite (run_updates_ext refreshed ups _ (init D arrs (override env n x) st0)).
    - apply IH. intros u Hu. apply Hc. right; exact Hu.
    - intro s'. apply update_equals_fresh_l; [exact Hd | apply (Hc (n, x)); left; reflexivity].
  Qed.

  (* re-applying an update with the value the input already has changes no slot *)
  Theorem reuse_idempotent_l : forall arrs refreshed n,
    disjoint_layout arrs -> refresh_complete arrs refreshed n ->
    forall (env : nat -> X) (st0 : nat -> V) s,
    update D refreshed (env n) (init D arrs env st0) s = init D arrs env st0 s.
  Proof.
    intros arrs refreshed n Hd Hc env st0 s.
    rewrite (update_equals_fresh_l arrs refreshed n Hd Hc). apply init_env_ext.
    intro k. unfold override. destruct (Nat.eqb k n) eqn:E; [apply Nat.eqb_eq in E; subst; reflexivity | reflexivity].
  Qed.

  (* what the check establishes for the tables read off the generated code *)
  Theorem update_checked_equals_fresh_l : forall arrs upd temp_srcs,
    update_okb arrs upd temp_srcs = true ->
    forall n refreshed, In (n, refreshed) upd ->
    forall (env : nat -> X) (x : X) (st0 : nat -> V) s,
    update D refreshed x (init D arrs env st0) s = init D arrs (override env n x) st0 s.
  Proof.
    intros arrs upd temp_srcs H n refreshed Hin. unfold update_okb in H.
    apply andb_true_iff in H. destruct H as [H _]. apply andb_true_iff in H. destruct H as [Hl Hr].
    rewrite forallb_forall in Hr. specialize (Hr (n, refreshed) Hin). simpl in Hr.
    apply update_equals_fresh_l; [apply layout_okb_sound, Hl | apply refresh_okb_sound, Hr].
  Qed.

  (* the obligation is needed: an array fed by input n that update(n) does not refresh keeps the
     quantity derived from the OLD input *)
  Theorem update_incomplete_stale_l : forall arrs refreshed a,
    disjoint_layout arrs -> In a arrs -> (forall b, In b refreshed -> In b arrs /\ b <> a) ->
    forall (env : nat -> X) (x : X) (st0 : nat -> V) s, covers a s = true ->
    update D refreshed x (init D arrs env st0) s = D (aid a) (env (src a)) (s - ofs a).
  Proof.
    intros arrs refreshed a Hd Ha Hr env x st0 s Hc. unfold update, init.
    rewrite foldw_none.
    - apply (foldw_some arrs (fun a0 : arr => env (src a0)) st0 s a Ha Hc). intros b Hb Hcb. apply (Hd b a s); assumption.
    - intros b Hb. destruct (covers b s) eqn:Ecb; [|reflexivity]. exfalso.
      destruct (Hr b Hb) as [Hba Hne]. apply Hne. apply (Hd b a s); assumption.
  Qed.
End SlotProofs.
