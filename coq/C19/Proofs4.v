(* C19 -- make_knots yields an open knot vector in the boolean sense of lib/Bsp.v (open_kv),
   hence every theorem of C02 applies to every constructed knot vector. *)
From Coq Require Import QArith Qcanon ZArith List Arith Bool Lia Lqa ZifyNat.
From Verif.lib Require Import Bsp NpCore NpQ.
From Verif.C02 Require Import Proofs.
From Verif.C19 Require Import Model Proofs.
Import ListNotations.
Ltac Zify.zify_post_hook ::= Z.to_euclidean_division_equations.
Open Scope Qc_scope.

Lemma bpidx_lo p n mult i : (i < p + 1)%nat -> bpidx p n mult i = 0%nat.
Proof. intros H. unfold bpidx. destruct (Nat.ltb_spec i (p + 1)); [reflexivity|lia]. Qed.

Lemma bpidx_hi p n mult i : (p + 1 + mult * (n - 1) <= i)%nat -> bpidx p n mult i = n.
Proof.
  intros H. unfold bpidx. destruct (Nat.ltb_spec i (p + 1)); [nia|].
  destruct (Nat.ltb_spec i (p + 1 + mult * (n - 1))); [lia|reflexivity].
Qed.

Lemma bpidx_mid p n mult i : (1 <= mult)%nat -> (p + 1 <= i)%nat -> (i < p + 1 + mult * (n - 1))%nat ->
  bpidx p n mult i = S ((i - (p + 1)) / mult) /\ ((i - (p + 1)) / mult < n - 1)%nat.
Proof.
  intros Hm H1 H2. unfold bpidx. destruct (Nat.ltb_spec i (p + 1)); [lia|].
  destruct (Nat.ltb_spec i (p + 1 + mult * (n - 1))); [|lia].
  split; [reflexivity|]. apply Nat.div_lt_upper_bound; lia.
Qed.

(* the multiplicity conjunct: kv[i] < kv[i + max p 1] for the interior start indices *)
Lemma bpidx_step p n mult i : (1 <= n)%nat -> (1 <= mult)%nat -> (mult <= Nat.max p 1)%nat ->
  (1 <= i)%nat -> (i + Nat.max p 1 < 2 * (p + 1) + mult * (n - 1) - 1)%nat ->
  (bpidx p n mult i < bpidx p n mult (i + Nat.max p 1))%nat.
Proof.
  intros Hn Hm HM Hi Hr. set (M := Nat.max p 1) in *. assert (HpM : (p <= M)%nat) by (unfold M; lia).
  assert (H1M : (1 <= M)%nat) by (unfold M; lia).
  set (k := (mult * (n - 1))%nat) in *.
  destruct (Nat.lt_ge_cases i (p + 1)) as [L|L].
  - rewrite (bpidx_lo p n mult i L).
    destruct (Nat.lt_ge_cases (i + M) (p + 1 + k)) as [L2|L2].
    + destruct (bpidx_mid p n mult (i + M) Hm ltac:(lia) L2) as [E _]. rewrite E. lia.
    + rewrite (bpidx_hi p n mult (i + M) L2). lia.
  - assert (Li : (i < p + 1 + k)%nat) by lia.
    destruct (bpidx_mid p n mult i Hm L Li) as [E B]. rewrite E.
    destruct (Nat.lt_ge_cases (i + M) (p + 1 + k)) as [L2|L2].
    + destruct (bpidx_mid p n mult (i + M) Hm ltac:(lia) L2) as [E2 _]. rewrite E2.
      apply -> Nat.succ_lt_mono.
      assert (S ((i - (p + 1)) / mult) <= (i + M - (p + 1)) / mult)%nat; [|lia].
      replace (i + M - (p + 1))%nat with ((i - (p + 1)) + (M - mult) + 1 * mult)%nat by lia.
      rewrite Nat.div_add by lia.
      assert ((i - (p + 1)) / mult <= (i - (p + 1) + (M - mult)) / mult)%nat by (apply Nat.div_le_mono; lia).
      lia.
    + rewrite (bpidx_hi p n mult (i + M) L2). lia.
Qed.

Lemma forallb_seq_intro (f : nat -> bool) s k :
  (forall i, (s <= i < s + k)%nat -> f i = true) -> forallb f (seq s k) = true.
Proof. intros H. apply forallb_forall. intros i Hi. apply in_seq in Hi. apply H. exact Hi. Qed.

Lemma make_knots_open_kv_l p a b n mult : a < b -> (1 <= n)%nat -> (1 <= mult)%nat ->
  (mult <= Nat.max p 1)%nat -> open_kv (make_knots p a b n mult) p = true.
Proof.
  intros Hab Hn Hm HM.
  pose proof (make_knots_kv_ok_l p a b n mult Hab Hn Hm) as [Hlen Hs Hf Hl Hls].
  assert (HL := make_knots_length_l p a b n mult).
  set (kv := make_knots p a b n mult) in *.
  set (k := (mult * (n - 1))%nat) in *.
  assert (Hkn : forall i, (i < 2 * (p + 1) + k)%nat -> kn kv i = a + natq (bpidx p n mult i) * ((b - a) / natq n))
    by (intros i Hi; apply kn_make_knots; assumption).
  unfold open_kv. rewrite HL. fold k.
  rewrite !andb_true_iff. split; [split; [split; [split; [split; [split|]|]|]|]|].
  - apply Nat.leb_le. lia.
  - apply idx_sortedb. exact Hs.
  - apply forallb_seq_intro. intros i Hi. apply NpQ.qeqb_iff.
    rewrite !Hkn by lia. rewrite !bpidx_lo by lia. reflexivity.
  - apply forallb_seq_intro. intros i Hi. apply NpQ.qeqb_iff.
    rewrite !Hkn by lia. rewrite !bpidx_hi by (fold k; lia). reflexivity.
  - apply NpQ.qltb_iff. rewrite !Hkn by lia. apply bp_lt; try assumption.
    rewrite bpidx_lo by lia.
    destruct (Nat.lt_ge_cases (S p) (p + 1 + k)) as [L|L].
    + destruct (bpidx_mid p n mult (S p) Hm ltac:(lia) L) as [E _]. rewrite E. lia.
    + rewrite bpidx_hi by (fold k; lia). lia.
  - apply NpQ.qltb_iff. rewrite HL in Hls. exact Hls.
  - apply forallb_seq_intro. intros i Hi. apply NpQ.qltb_iff.
    assert (HpM : (p <= Nat.max p 1)%nat) by lia.
    rewrite !Hkn by lia. apply bp_lt; try assumption.
    apply bpidx_step; try assumption; fold k; lia.
Qed.

(* ------------------------------------------------------------------ *)
(* C02's theorems on every constructed knot vector (through the lemmas C02/Props.v closes them with,
   so that this file does not have to be rebuilt whenever C02/Props.v gains a theorem) *)
From Verif.C02 Require Proofs_ref Proofs_ndu Proofs_single.

Lemma make_knots_ends p a b n mult : (1 <= n)%nat -> (1 <= mult)%nat ->
  kn (make_knots p a b n mult) 0 = a /\
  kn (make_knots p a b n mult) (length (make_knots p a b n mult) - 1) = b.
Proof.
  intros Hn Hm. rewrite make_knots_length_l. set (k := (mult * (n - 1))%nat).
  rewrite !kn_make_knots by (fold k; lia). fold k.
  rewrite bpidx_lo by lia. rewrite bpidx_hi by (fold k; lia). rewrite natq_0. split; [ring|].
  field. apply natq_neq0. lia.
Qed.

Lemma make_knots_basis_properties_l p a b n mult u :
  a < b -> (1 <= n)%nat -> (1 <= mult)%nat -> (mult <= Nat.max p 1)%nat -> a <= u -> u <= b ->
  let kv := make_knots p a b n mult in
  open_kv kv p = true /\
  Proofs_ref.sumf (fun i => Nref kv p i u) 0 (numdofs kv p) = 1 /\
  (forall i, (i < numdofs kv p)%nat -> 0 <= Nref kv p i u) /\
  (forall i, (i < numdofs kv p)%nat -> ~ (findspan kv p u - p <= i <= findspan kv p u)%nat -> Nref kv p i u = 0) /\
  (forall i, (i < numdofs kv p)%nat ->
     single_ev kv p i u = Nref kv p i u /\ nth i (colloc_row kv p 0 u) 0 = Nref kv p i u) /\
  (forall k, (1 <= k)%nat -> Proofs_ref.sumf (fun i => dNref kv k p i u) 0 (numdofs kv p) = 0).
Proof.
  intros Hab Hn Hm HM Hu0 Hu1 kv.
  pose proof (make_knots_open_kv_l p a b n mult Hab Hn Hm HM) as Hopen. fold kv in Hopen.
  pose proof (make_knots_kv_ok_l p a b n mult Hab Hn Hm) as Hok. fold kv in Hok.
  destruct (make_knots_ends p a b n mult Hn Hm) as [E0 E1]. fold kv in E0, E1.
  assert (H0 : kn kv 0 <= u) by (rewrite E0; exact Hu0).
  assert (H1 : u <= kn kv (length kv - 1)) by (rewrite E1; exact Hu1).
  assert (Hlen : (2 * p + 2 <= length kv)%nat) by (destruct Hok; assumption).
  assert (Hi : forall i, (i < numdofs kv p)%nat -> (i + p + 1 < length kv)%nat) by (unfold numdofs; intros; lia).
  split; [exact Hopen|]. split; [apply Proofs_ref.N_partition_of_unity_all_l; assumption|].
  split; [intros i Hd; apply Proofs_ref.N_nonneg_l; [destruct Hok; assumption|apply Hi; exact Hd]|].
  split; [intros i Hd Hn'; apply Proofs_ref.N_local_l; auto|].
  split.
  - intros i Hd. split.
    + apply Proofs_single.single_ev_eq_spec_l; [exact Hopen|apply Hi; exact Hd].
    + apply Proofs_ndu.colloc_row_values_l; assumption.
  - intros k Hk. apply Proofs_ref.dN_sum_zero_all_l; assumption.
Qed.
