(* C01 -- the emitted program, continued (builds on Kernel.v):
     1. the two phases: precompute_fields (variables that do not depend on basis functions, run once per Gauss
        node, results kept in `fields`/`constants`, its local temporaries are lost) followed by the kernel
        (per entry) computes the values of the whole scheduled forest;
     2. symmetric variables: one stored slot for (i,j) and (j,i)  (codegen/cython.py:105-123, 227-235);
     3. vector-valued kernels: `r[k] += code(e_k)`  (codegen/cython.py:368-371, 381-385).             *)
From Coq Require Import List String Bool Arith Lia.
From Verif.C06 Require Import Model.
From Verif.C01 Require Import Model Proofs Kernel.
Import ListNotations.
Open Scope nat_scope.

Section Phases.
Variable F : Type.
Variables (f0 : F) (fadd fmul fsub fdiv : F -> F -> F) (fopp : F -> F).
Variable lay : string -> nat -> loc.
Variable shp : string -> list nat.
Variable sz : string -> nat.
Hypothesis lay_inj : forall n k n' k', lay n k = lay n' k' -> n = n' /\ k = k'.

Notation expr := (expr F).
Notation env := (env F).
Notation eval := (eval F fadd fmul fsub fdiv fopp).
Notation eval_defs := (eval_defs F f0 fadd fmul fsub fdiv fopp).
Notation ceval := (ceval F fadd fmul fsub fdiv fopp).
Notation compile := (compile F lay shp).
Notation run_defs := (run_defs F fadd fmul fsub fdiv fopp lay shp).
Notation assign_from := (assign_from F fadd fmul fsub fdiv fopp lay).
Notation wf_prog := (wf_prog F lay shp sz).
Notation wfe := (wfe F shp sz).
Notation Agree := (Agree F lay shp sz).
Notation names_after := (names_after F).

(* `fields[k]` and `constants[k]` survive precompute_fields; its cdef locals do not *)
Definition is_glob (l : loc) : bool := match l with LField _ | LConst _ => true | LLocal _ _ => false end.

(* ---- the compiled code of an expression without basis functions does not look at the jets ---- *)
Lemma compile_nobf_ctx (nc nc' : nctx F) : (forall a, gwv F nc a = gwv F nc' a) -> (forall f x, fnv F nc f x = fnv F nc' f x) ->
  forall e c st st', compile e = Some c -> uses_bfun F e = false -> (forall l, st l = st' l) ->
  ceval nc st c = ceval nc' st' c.
Proof.
  intros Hg Hf. induction e as [v|n cmp D ph|n Ix D p|a| | |x IH|f x IH|o x IHx y IHy];
    intros c st st' Hc Hb Hs; simpl in Hc, Hb.
  - inversion Hc; subst. reflexivity.
  - discriminate.
  - destruct (zeroD D); [|discriminate]. inversion Hc; subst. simpl. apply Hs.
  - inversion Hc; subst. simpl. apply Hg.
  - discriminate.
  - discriminate.
  - destruct (compile x) as [cx|] eqn:E; [|discriminate]. inversion Hc; subst. simpl. f_equal. now apply (IH cx).
  - destruct (compile x) as [cx|] eqn:E; [|discriminate]. inversion Hc; subst. simpl. rewrite Hf. f_equal. now apply (IH cx).
  - destruct (compile x) as [cx|] eqn:Ex; [|discriminate]. destruct (compile y) as [cy|] eqn:Ey; [|discriminate].
    inversion Hc; subst. apply orb_false_elim in Hb. destruct Hb as [Hbx Hby]. simpl.
    f_equal; [now apply (IHx cx) | now apply (IHy cy)].
Qed.

Lemma assign_from_ctx (nc nc' : nctx F) name : (forall a, gwv F nc a = gwv F nc' a) -> (forall f x, fnv F nc f x = fnv F nc' f x) ->
  forall es cs, omap compile es = Some cs -> forallb (fun e => negb (uses_bfun F e)) es = true ->
  forall k st st', (forall l, st l = st' l) ->
  forall l, assign_from nc st name k cs l = assign_from nc' st' name k cs l.
Proof.
  intros Hg Hf. induction es as [|e r IH]; intros cs Hc Hb k st st' Hs l; simpl in Hc.
  - inversion Hc; subst. simpl. apply Hs.
  - destruct (compile e) as [c|] eqn:E; [|discriminate]. destruct (omap compile r) as [cr|] eqn:E'; [|discriminate].
    inversion Hc; subst. simpl in Hb. apply andb_prop in Hb. destruct Hb as [Hb1 Hb2]. apply negb_true_iff in Hb1.
    simpl. apply (IH cr eq_refl Hb2). intros l'. unfold upd.
    rewrite (compile_nobf_ctx nc nc' Hg Hf e c st st' E Hb1 Hs).
    destruct (loc_eqb l' (lay name k)); [reflexivity | apply Hs].
Qed.

Definition nobf_defs (ds : list (def F)) : Prop :=
  Forall (fun d => match tentries F (snd d) with
                   | Some es => forallb (fun e => negb (uses_bfun F e)) es = true
                   | None => True end) ds.

Lemma run_defs_ctx (nc nc' : nctx F) : (forall a, gwv F nc a = gwv F nc' a) -> (forall f x, fnv F nc f x = fnv F nc' f x) ->
  forall ds, nobf_defs ds -> forall st st', (forall l, st l = st' l) ->
  forall l, run_defs nc st ds l = run_defs nc' st' ds l.
Proof.
  intros Hg Hf. induction ds as [|[name t] r IH]; intros Hn st st' Hs l; simpl; [apply Hs|].
  inversion Hn as [|? ? Hd Hr]; subst. simpl in Hd.
  destruct (tentries F t) as [es|]; [|apply Hs].
  destruct (omap compile es) as [cs|] eqn:E; [|apply Hs].
  apply (IH Hr). intros l'. now apply (assign_from_ctx nc nc' name Hg Hf es cs E Hd).
Qed.

Lemma eval_defs_app : forall ds1 ds2 (en : env), eval_defs en (ds1 ++ ds2) = eval_defs (eval_defs en ds1) ds2.
Proof.
  induction ds1 as [|[name t] r IH]; intros ds2 en; simpl; [reflexivity|].
  destruct (tentries F t); apply IH.
Qed.

Lemma agree_weaken st st' en known G :
  Agree st en known -> incl G known -> (forall n k, In n G -> st' (lay n k) = st (lay n k)) -> Agree st' en G.
Proof.
  intros HA Hi Hs n Ix D p Hin Hlt Z. rewrite Hs by exact Hin. apply HA; [apply Hi; exact Hin | exact Hlt | exact Z].
Qed.

(* ---- target 1 ------------------------------------------------------------------------------------------- *)
(* pre  = the precomputable definitions (no basis functions), run in precompute_fields with a node context
          nc_pre that has no jets of basis functions (any pdv), from the store st0 that holds inputs/parameters;
   G    = the variables the kernel may still read afterwards: their slots are fields[]/constants[] entries;
   st2  = the store the kernel starts from at an entry: equal to the store precompute left on fields/constants,
          ARBITRARY on local names (the locals of precompute_fields are gone, the kernel's are uninitialised);
   ker  = the kernel's local definitions, run per entry with the jets of that entry's basis functions (nc).
   Then the integrand code evaluates to the C06 value of the WHOLE scheduled forest pre ++ ker at that node. *)
Theorem precompute_then_kernel_equals_forest_l :
  forall (nc nc_pre : nctx F) (st0 st2 : store F) (en : env) known G pre ker es cs,
  wf_prog known pre -> nobf_defs pre ->
  incl G (names_after known pre) -> (forall n k, In n G -> is_glob (lay n k) = true) ->
  wf_prog G ker -> omap compile es = Some cs -> Forall (wfe (names_after G ker)) es ->
  Agree st0 en known -> Ctx F nc en ->
  (forall a, gwv F nc_pre a = gwv F nc a) -> (forall f x, fnv F nc_pre f x = fnv F nc f x) ->
  (forall l, is_glob l = true -> st2 l = run_defs nc_pre st0 pre l) ->
  map (ceval nc (run_defs nc st2 ker)) cs = map (eval (eval_defs en (pre ++ ker))) es.
Proof.
  intros nc nc_pre st0 st2 en known G pre ker es cs Hwp Hnb Hincl Hglob Hwk Hc Hw HA HC Hg Hf Hst2.
  destruct (run_defs_sound F f0 fadd fmul fsub fdiv fopp lay shp sz lay_inj nc pre known st0 en Hwp HA HC) as [HA1 HC1].
  assert (HA2 : Agree st2 (eval_defs en pre) G).
  { apply (agree_weaken (run_defs nc st0 pre) st2 (eval_defs en pre) (names_after known pre) G HA1 Hincl).
    intros n k Hin. rewrite (Hst2 _ (Hglob n k Hin)).
    apply (run_defs_ctx nc_pre nc Hg Hf pre Hnb). reflexivity. }
  rewrite eval_defs_app.
  apply (kernel_node_sound F f0 fadd fmul fsub fdiv fopp lay shp sz lay_inj nc st2 (eval_defs en pre) G ker es cs); assumption.
Qed.
End Phases.

(* ---- target 3: vector-valued kernels ------------------------------------------------------------------------ *)
Section VectorKernel.
Variable F : Type.
Variables (f0 : F) (fadd fmul fsub fdiv : F -> F -> F) (fopp : F -> F).
Notation ceval := (ceval F fadd fmul fsub fdiv fopp).

(* r is `double* r = [0.0, ...]`, indexed by the component; one integrand expression = one vector of codes:
   for i, e_i in enumerate(expr):  r[i] += code(e_i) *)
Definition vstep (nc : nctx F) (st : store F) (r : nat -> F) (cs : list (cexpr F)) : nat -> F :=
  fun k => match nth_error cs k with Some c => fadd (r k) (ceval nc st c) | None => r k end.
Definition kernel_body_vec (nc : nctx F) (st : store F) (css : list (list (cexpr F))) (r : nat -> F) : nat -> F :=
  fold_left (vstep nc st) css r.

(* component k of every integrand vector *)
Definition comp (k : nat) (css : list (list (cexpr F))) : list (cexpr F) :=
  flat_map (fun cs => match nth_error cs k with Some c => [c] | None => [] end) css.

Lemma kernel_body_vec_component nc st : forall css r k,
  kernel_body_vec nc st css r k = kernel_body F fadd fmul fsub fdiv fopp nc st (comp k css) (r k).
Proof.
  unfold kernel_body_vec, kernel_body. induction css as [|cs rest IH]; intros r k; [reflexivity|].
  change (fold_left (vstep nc st) (cs :: rest) r) with (fold_left (vstep nc st) rest (vstep nc st r cs)).
  rewrite IH. unfold comp. simpl flat_map. rewrite fold_left_app. f_equal.
  unfold vstep. destruct (nth_error cs k) as [c|]; reflexivity.
Qed.

(* the nested loops with a vector accumulator are, per component, the scalar loops *)
Definition vadd (a b : nat -> F) : nat -> F := fun k => fadd (a k) (b k).

Lemma loop_range_component : forall n a (body : nat -> (nat -> F) -> (nat -> F)) (bodyk : nat -> F -> F) acc k,
  (forall i r, body i r k = bodyk i (r k)) ->
  loop_range (nat -> F) a n body acc k = loop_range F a n bodyk (acc k).
Proof.
  induction n; intros a body bodyk acc k H; simpl; [reflexivity|].
  rewrite (IHn (S a) body bodyk (body a acc) k H). now rewrite H.
Qed.

Lemma loop_box_component : forall ns (f : list nat -> nat -> F) acc k,
  loop_box (nat -> F) vadd ns f acc k = loop_box F fadd ns (fun idx => f idx k) (acc k).
Proof.
  induction ns as [|n r IH]; intros f acc k; simpl; [reflexivity|].
  apply loop_range_component. intros i r0. apply IH.
Qed.
End VectorKernel.

(* ---- target 2: symmetric variables ---------------------------------------------------------------------------- *)
Section Symmetric.
Variable F : Type.

(* writes to numbered slots of one array, in order *)
Definition write_all (mk : nat -> loc) (st : store F) (kvs : list (nat * F)) : store F :=
  fold_left (fun s kv => upd F s (mk (fst kv)) (snd kv)) kvs st.

Lemma write_all_other mk (mk_inj : forall a b, mk a = mk b -> a = b) : forall kvs st l,
  (forall k v, In (k, v) kvs -> l <> mk k) -> write_all mk st kvs l = st l.
Proof.
  induction kvs as [|[k v] r IH]; intros st l H; simpl; [reflexivity|].
  rewrite IH by (intros k' v' Hin; apply (H k' v'); right; exact Hin).
  unfold upd. destruct (loc_eqb_spec l (mk k)) as [E|E]; [|reflexivity].
  exfalso. apply (H k v); [left; reflexivity | exact E].
Qed.

Lemma write_all_key mk (mk_inj : forall a b, mk a = mk b -> a = b) : forall kvs st k v,
  (forall k' v1 v2, In (k', v1) kvs -> In (k', v2) kvs -> v1 = v2) ->
  In (k, v) kvs -> write_all mk st kvs (mk k) = v.
Proof.
  induction kvs as [|[k0 v0] r IH]; intros st k v Hc Hin; [destruct Hin|].
  simpl. destruct (in_dec Nat.eq_dec k (map fst r)) as [Hk|Hk].
  - apply in_map_iff in Hk. destruct Hk as ([k' v'] & Ek & Hin'). simpl in Ek. subst k'.
    assert (v' = v) by (apply (Hc k v' v); [right; exact Hin' | exact Hin]). subst v'.
    apply IH; [|exact Hin']. intros k' v1 v2 H1 H2. apply (Hc k' v1 v2); right; assumption.
  - destruct Hin as [E|Hin]; [|exfalso; apply Hk; apply in_map_iff; exists (k, v); split; [reflexivity | exact Hin]].
    inversion E; subst.
    rewrite write_all_other; [|exact mk_inj|].
    + unfold upd. destruct (loc_eqb_spec (mk k) (mk k)); [reflexivity | congruence].
    + intros k' v' Hin' E'. apply mk_inj in E'. subst k'. apply Hk. apply in_map_iff. exists (k, v'). split; [reflexivity | exact Hin'].
Qed.

(* gen_assign for a symmetric n x n variable at offset ofs: the entries (i,j), i <= j, in row-major order *)
Definition sym_writes (n ofs : nat) (vals : nat -> nat -> F) : list (nat * F) :=
  map (fun ij => (ofs + sym_index_to_seq n (fst ij) (snd ij), vals (fst ij) (snd ij))) (assigned_entries n n true).

Theorem symmetric_storage_sound_l : forall (mk : nat -> loc) n ofs (vals : nat -> nat -> F) (st : store F),
  (forall a b, mk a = mk b -> a = b) ->
  (forall i j, i < n -> j < n -> vals i j = vals j i) ->
  let st' := write_all mk st (sym_writes n ofs vals) in
  (* every read var_ref(var, (i,j)), in either index order, gets the value of the expression's (i,j) entry *)
  (forall i j, i < n -> j < n -> st' (mk (ofs + sym_index_to_seq n i j)) = vals i j) /\
  (* nothing outside the variable's block of n(n+1)/2 slots is touched *)
  (forall l, (forall s, s < n * (n + 1) / 2 -> l <> mk (ofs + s)) -> st' l = st l).
Proof.
  intros mk n ofs vals st mk_inj Hsym st'. split.
  - intros i j Hi Hj.
    assert (Hcons : forall k' v1 v2, In (k', v1) (sym_writes n ofs vals) -> In (k', v2) (sym_writes n ofs vals) -> v1 = v2).
    { intros k' v1 v2 H1 H2. unfold sym_writes in H1, H2. apply in_map_iff in H1, H2.
      destruct H1 as ([a b] & E1 & I1). destruct H2 as ([a' b'] & E2 & I2). simpl in E1, E2.
      apply assigned_entries_spec in I1, I2. destruct I1 as (A1 & A2 & A3). destruct I2 as (B1 & B2 & B3).
      inversion E1; inversion E2; subst.
      assert (Q : sym_index_to_seq n a b = sym_index_to_seq n a' b') by lia.
      destruct (sym_inj_l n a b a' b' (A3 eq_refl) A2 (B3 eq_refl) B2 Q) as [-> ->]. reflexivity. }
    destruct (le_lt_dec i j) as [L|L].
    + apply (write_all_key mk mk_inj); [exact Hcons|].
      unfold sym_writes. apply in_map_iff. exists (i, j). split; [reflexivity|].
      apply assigned_entries_spec. repeat split; auto.
    + rewrite sym_symmetric, (Hsym i j Hi Hj).
      apply (write_all_key mk mk_inj); [exact Hcons|].
      unfold sym_writes. apply in_map_iff. exists (j, i). split; [reflexivity|].
      apply assigned_entries_spec. repeat split; auto. intros _. lia.
  - intros l Hl. apply (write_all_other mk mk_inj). intros k v Hin E.
    unfold sym_writes in Hin. apply in_map_iff in Hin. destruct Hin as ([a b] & E1 & I1). simpl in E1.
    apply assigned_entries_spec in I1. destruct I1 as (A1 & A2 & A3). inversion E1; subst.
    apply (Hl (sym_index_to_seq n a b)); [apply sym_range_l; auto | reflexivity].
Qed.
End Symmetric.

(* ---- the vector entry, per component block ---------------------------------------------------------------------- *)
Section VectorEntry.
Variable F : Type.
Variables (f0 : F) (fadd fmul fsub fdiv : F -> F -> F) (fopp : F -> F).
Variable lay : string -> nat -> loc.
Variable shp : string -> list nat.
Variable sz : string -> nat.
Hypothesis lay_inj : forall n k n' k', lay n k = lay n' k' -> n = n' /\ k = k'.
Hypothesis add_0_l : forall x, fadd f0 x = x.
Hypothesis add_0_r : forall x, fadd x f0 = x.
Hypothesis add_assoc : forall x y z, fadd x (fadd y z) = fadd (fadd x y) z.

Definition vzero : nat -> F := fun _ => f0.

Lemma entry_impl_component s1 s2 (fvec : list nat -> nat -> F) k :
  entry_impl (nat -> F) vzero (vadd F fadd) s1 s2 fvec k = entry_impl F f0 fadd s1 s2 (fun idx => fvec idx k).
Proof.
  unfold entry_impl. destruct (entry_ranges s1 s2) as [rs|]; [|reflexivity].
  apply (loop_box_component F fadd).
Qed.

Lemma entry_impl_ext s1 s2 (f g : list nat -> F) : (forall idx, f idx = g idx) ->
  entry_impl F f0 fadd s1 s2 f = entry_impl F f0 fadd s1 s2 g.
Proof.
  intros H. rewrite !(entry_impl_as_sum F f0 fadd add_0_l add_0_r add_assoc). unfold entry_spec.
  destruct (entry_ranges s1 s2); [|reflexivity]. now apply (sum_box_ext F f0 fadd).
Qed.

Theorem entry_denotes_gauss_sum_component_l :
  forall k (s1 s2 : list (nat * nat)) (fvec : list nat -> nat -> F)
         (nc : list nat -> nctx F) (st : list nat -> store F) (en : list nat -> env F) known ds es cs,
  wf_prog F lay shp sz known ds -> omap (compile F lay shp) es = Some cs ->
  Forall (wfe F shp sz (names_after F known ds)) es ->
  (forall idx, Agree F lay shp sz (st idx) (en idx) known /\ Ctx F (nc idx) (en idx)) ->
  (* component k of what the vector kernel adds at a node = the sum of the codes of the k-th components *)
  (forall idx, fvec idx k = sumF F f0 fadd (map (ceval F fadd fmul fsub fdiv fopp (nc idx)
                                             (run_defs F fadd fmul fsub fdiv fopp lay shp (nc idx) (st idx) ds)) cs)) ->
  entry_impl (nat -> F) vzero (vadd F fadd) s1 s2 fvec k
  = match entry_ranges s1 s2 with
    | None => f0
    | Some rs => sum_box F f0 fadd rs
        (fun idx => sumF F f0 fadd (map (eval F fadd fmul fsub fdiv fopp
                                           (eval_defs F f0 fadd fmul fsub fdiv fopp (en idx) ds)) es))
    end.
Proof.
  intros k s1 s2 fvec nc st en known ds es cs Hwf Hc Hw Hn Hf.
  rewrite entry_impl_component. rewrite (entry_impl_ext s1 s2 _ _ Hf).
  apply (entry_denotes_gauss_sum_l F f0 fadd fmul fsub fdiv fopp lay shp sz lay_inj add_0_l add_0_r add_assoc
           s1 s2 nc st en known ds es cs); assumption.
Qed.
End VectorEntry.
