"""Implementation driver for C08: assembles one form in many configurations on the real code.

stdin: {"threads": n, "mode": "full"|"digest", "cases": [...], "chunks": [[len,k],..], "transp": [[[i,j],..],..]}
stdout (last line): {"results": [...], "chunks": [...], "transp": [...]}

pyiga.set_max_threads(n) is called before anything else touches the thread pool (the pool is
created once per process), so one driver process = one thread count.
"""
import base64
import hashlib
import json
import os
import sys
import time
import traceback

import numpy as np


def errclass(e):
    for c in (TypeError, ValueError, AssertionError, IndexError, KeyError, NotImplementedError, RuntimeError,
              ZeroDivisionError):
        if isinstance(e, c):
            return c.__name__
    return 'Other:' + type(e).__name__


def enc(a):
    a = np.ascontiguousarray(np.asarray(a, dtype=np.float64))
    return {'shape': list(a.shape), 'b64': base64.b64encode(a.tobytes()).decode('ascii')}


def digest(a):
    a = np.ascontiguousarray(np.asarray(a, dtype=np.float64))
    return hashlib.sha256(a.tobytes()).hexdigest()[:24]


# physical callables (functions of the physical coordinates)
FIELDS = {
    'f0': lambda *X: 1.0 + 0.5 * X[0],
    'f1': lambda *X: 2.0 - 0.75 * X[0] * X[0],
    'f2': lambda *X: 0.25 + X[0],
}
# spline fields in the parameter domain (have grid_eval, grid_jacobian, grid_hessian): scalar s*, vector g*
SPLINE_SCALAR = {
    's0': lambda *X: 1.0 + X[0] + 2.0 * X[-1] * X[-1],
    's1': lambda *X: 2.0 - X[0] * X[-1] + X[0] ** 3,
    's2': lambda *X: 0.5 + 1.5 * X[0] * X[0] - X[-1],
}
SPLINE_VECTOR = {
    'g0': lambda *X: tuple(1.0 + (d + 1) * X[d] for d in range(len(X))),
    'g1': lambda *X: tuple(2.0 - X[d] * X[-1 - d] for d in range(len(X))),
    'g2': lambda *X: tuple(0.25 + X[d] ** 3 for d in range(len(X))),
}
_field_cache = {}


def resolve(v, dim):
    """argument value named in a case -> the object handed to pyiga"""
    if isinstance(v, list):
        return tuple(v)
    if not isinstance(v, str):
        return v
    if v in FIELDS:
        return FIELDS[v]
    key = (v, dim)
    if key not in _field_cache:
        from pyiga import bspline, approx
        fkvs = tuple(bspline.make_knots(3, 0.0, 1.0, 2) for _ in range(dim))
        fun = SPLINE_SCALAR[v] if v in SPLINE_SCALAR else SPLINE_VECTOR[v]
        _field_cache[key] = bspline.BSplineFunc(fkvs, approx.interpolate(fkvs, fun))
    return _field_cache[key]


def main():
    payload = json.load(sys.stdin)
    import pyiga
    assert os.path.realpath(pyiga.__file__).startswith(os.path.realpath(os.environ['VERIF_IMPL_DIR'])), pyiga.__file__
    nthreads = int(payload.get('threads', 1))
    pyiga.set_max_threads(nthreads)
    from pyiga import bspline, assemble, geometry, assemblers, assemble_tools, vform, compile as pcompile
    from pyiga import assemble_tools_cy
    from pyiga.mlmatrix import MLStructure, get_transpose_idx_for_bidx
    assert pyiga.get_max_threads() == nthreads
    mode = payload.get('mode', 'full')
    full = mode == 'full'

    def out_arr(res, key, a):
        res['dig'][key] = digest(a)
        if full:
            res['arr'][key] = enc(a)

    def make_kvs(spec):
        out = []
        for sp in spec:
            if isinstance(sp[1], list):     # [p, explicit knot list]
                out.append(bspline.KnotVector(np.array(sp[1], dtype=np.float64), int(sp[0])))
            else:
                p, n, m = sp
                out.append(bspline.make_knots(int(p), 0.0, 1.0, int(n), mult=int(m)))
        return tuple(out)

    def index_arg(sub, k):
        """the same index pairs in different containers / dtypes / memory layouts"""
        if k % 3 == 0:
            return [tuple(x) for x in sub]
        if k % 3 == 1:
            return np.array(sub, dtype=np.int64).reshape(-1, 2)
        return np.asfortranarray(np.array(sub, dtype=np.int32).reshape(-1, 2))     # F-ordered, 32-bit

    def all_pairs(M, N):
        return np.column_stack((np.repeat(np.arange(M, dtype=np.int64), N), np.tile(np.arange(N, dtype=np.int64), M)))

    def make_geo(name, dim):
        if name == 'unit':
            return geometry.unit_cube(dim=dim) if dim != 2 else geometry.unit_square()
        if name == 'qa':
            return geometry.quarter_annulus()
        if name == 'twisted':
            return geometry.twisted_box()
        if name == 'line':
            return geometry.line_segment(0.5, 2.0)
        raise ValueError(name)

    SHIPPED = {'mass': 'MassAssembler', 'stiff': 'StiffnessAssembler', 'heat': 'HeatAssembler_ST',
               'wave': 'WaveAssembler_ST', 'divdiv': 'DivDivAssembler'}

    def make_asm(case, kvs, geo, override=None):
        """returns (assembler object, Assembler-wrapper or None)"""
        form = case['form']
        dim = len(kvs)
        if form in SHIPPED:
            cls = getattr(assemblers, '%s%dD' % (SHIPPED[form], dim))
            return cls(kvs, geo)
        if form == 'custom':
            args = {'geo': geo}
            for k, v in (case.get('args') or {}).items():
                args[k] = resolve(v, dim)
            if override:
                for k, v in override.items():
                    args[k] = resolve(v, dim)
            bf = [tuple(b) for b in case['bfuns']] if case.get('bfuns') else None
            return assemble.instantiate_assembler(case['expr'], kvs, args, bf, None, list(case.get('updatable') or []))
        raise ValueError(form)

    def dense(A):
        if hasattr(A, 'asmatrix') and not hasattr(A, 'toarray'):
            A = A.asmatrix('csr')
        return np.asarray(A.toarray(), dtype=np.float64)

    results = []
    for case in payload.get('cases', []):
        res = {'id': case['id'], 'dig': {}, 'arr': {}, 'status': {}, 'info': {}}
        t0 = time.time()
        try:
            kvs = make_kvs(case['kvs'])
            dim = len(kvs)
            geo = make_geo(case['geo'], dim)
            asm = make_asm(case, kvs, geo)
            vec = hasattr(asm, 'num_components')
            S = MLStructure.from_kvs(*asm.kvs)
            bidx = [np.asarray(b).astype(int).tolist() for b in S.bidx]
            P = S.nonzero()
            P = (np.asarray(P[0]).astype(np.int64), np.asarray(P[1]).astype(np.int64))
            res['info'].update({'vec': vec, 'shape': [int(x) for x in S.shape], 'bs': [[int(a), int(b)] for a, b in S.bs],
                                'nqp': int(max(kv.p for kv in kvs) + 1), 'p': [int(kv.p) for kv in kvs],
                                'ndofs': [int(kv.numdofs) for kv in kvs]})
            if full and case['form'] == 'custom' and case.get('want_source'):
                # the text the code generator emits for this form (what compile_vform compiles)
                try:
                    gargs = {'geo': geo}
                    for k, v in (case.get('args') or {}).items():
                        gargs[k] = resolve(v, dim)
                    gbf = [tuple(b) for b in case['bfuns']] if case.get('bfuns') else None
                    gvf = vform.parse_vf(case['expr'], kvs, args=gargs, bfuns=gbf, boundary=False,
                                         updatable=list(case.get('updatable') or []))
                    res['info']['gen_src'] = pcompile.generate(gvf)
                except Exception as e:   # noqa
                    res['status']['gen_src'] = errclass(e) + ': ' + str(e)[:200]
            if full:
                res['info']['bidx'] = bidx
                res['info']['P'] = [P[0].tolist(), P[1].tolist()]
            IJ = np.column_stack(P)
            if vec:
                nc = tuple(int(x) for x in asm.num_components())
                res['info']['numcomp'] = list(nc)
                try:
                    # every block of the M x N block matrix, independent of any sparsity structure
                    out_arr(res, 'blocks_dense', asm.multi_blocks(all_pairs(int(S.shape[0]), int(S.shape[1]))))
                    res['status']['blocks_dense'] = 'Ok'
                except Exception as e:   # noqa
                    res['status']['blocks_dense'] = errclass(e) + ': ' + str(e)[:200]
                try:
                    B = asm.multi_blocks(IJ)
                    res['info']['blocks_shape'] = list(B.shape)
                    out_arr(res, 'blocks_full', B)
                    B2 = asm.multi_blocks(IJ)       # reuse of the same object
                    out_arr(res, 'blocks_full_again', B2)
                    res['status']['blocks_full'] = 'Ok'
                except Exception as e:   # noqa
                    res['status']['blocks_full'] = errclass(e) + ': ' + str(e)[:200]
                core = getattr(assemble_tools, 'generic_assemble_core_vec_%dd' % dim)
                for sym in ([False, True] if nc[0] == nc[1] else [False]):
                    key = 'core_sym' if sym else 'core_full'
                    try:
                        Xs = S.join(MLStructure.dense(nc[::-1]))
                        X = core(asm, Xs.bidx[:dim], sym)
                        out_arr(res, key, X)
                        res['status'][key] = 'Ok'
                    except Exception as e:   # noqa
                        res['status'][key] = errclass(e) + ': ' + str(e)[:200]
                if full:
                    try:
                        res['info']['transp'] = [np.asarray(get_transpose_idx_for_bidx(b)).astype(int).tolist() for b in S.bidx]
                    except Exception as e:   # noqa
                        res['info']['transp'] = None
                # arbitrary block subsets (list input and ndarray input, repeated / unsorted pairs)
                for k, sub in enumerate(case.get('subsets') or []):
                    key = 'subblocks%d' % k
                    try:
                        Bs = asm.multi_blocks(index_arg(sub, k))
                        out_arr(res, key, Bs)
                        res['status'][key] = 'Ok'
                    except Exception as e:   # noqa
                        res['status'][key] = errclass(e) + ': ' + str(e)[:200]
                # results returned earlier must not change when the assembler is used again
                if res['status'].get('blocks_full') == 'Ok':
                    out_arr(res, 'blocks_full_kept', B)
            else:
                try:
                    # every entry of the M x N matrix, independent of any sparsity structure
                    out_arr(res, 'entries_dense', asm.multi_entries(all_pairs(int(S.shape[0]), int(S.shape[1]))))
                    res['status']['entries_dense'] = 'Ok'
                except Exception as e:   # noqa
                    res['status']['entries_dense'] = errclass(e) + ': ' + str(e)[:200]
                E = asm.multi_entries(IJ)
                out_arr(res, 'entries_full', E)
                out_arr(res, 'entries_full_again', asm.multi_entries(IJ))
                res['status']['entries_full'] = 'Ok'
                for k, sub in enumerate(case.get('subsets') or []):
                    key = 'subentries%d' % k
                    try:
                        Es = asm.multi_entries(index_arg(sub, k))
                        out_arr(res, key, Es)
                        res['status'][key] = 'Ok'
                    except Exception as e:   # noqa
                        res['status'][key] = errclass(e) + ': ' + str(e)[:200]
                out_arr(res, 'entries_full_kept', E)     # E was returned before the calls above
                if case.get('single'):
                    out_arr(res, 'single', np.array([asm.entry(int(i), int(j)) for (i, j) in case['single']]))
                # rows through nonzeros_for_rows
                if case.get('rows') is not None:
                    try:
                        rows = np.array(case['rows'], dtype=np.int64)
                        I, J = S.nonzeros_for_rows(rows)
                        Er = asm.multi_entries(np.column_stack((I, J)))
                        out_arr(res, 'rows_vals', Er)
                        if full:
                            res['info']['rows_IJ'] = [np.asarray(I).astype(int).tolist(), np.asarray(J).astype(int).tolist()]
                        res['status']['rows'] = 'Ok'
                    except Exception as e:   # noqa
                        res['status']['rows'] = errclass(e) + ': ' + str(e)[:200]
            # all configurations
            for (sym, fmt, lay) in [tuple(c) for c in case.get('configs') or []]:
                key = 'A-%s-%s-%s' % ('sym' if sym else 'full', fmt, lay)
                try:
                    A = assemble.assemble_entries(asm, symmetric=bool(sym), format=fmt, layout=lay)
                    if fmt != 'mlb':
                        got = A.getformat() if hasattr(A, 'getformat') else A.format
                        if got != fmt:
                            raise RuntimeError('requested format %s, got %s' % (fmt, got))
                    out_arr(res, key, dense(A))
                    res['status'][key] = 'Ok'
                except Exception as e:   # noqa
                    res['status'][key] = errclass(e) + ': ' + str(e)[:200]
            # update sequences through the Assembler wrapper: update vs. fresh construction
            if full and case.get('updates'):
                try:
                    args0 = {'geo': geo}
                    cur = dict(case.get('args') or {})
                    for k, v in cur.items():
                        args0[k] = resolve(v, dim)
                    bf = [tuple(b) for b in case['bfuns']] if case.get('bfuns') else None
                    W = assemble.Assembler(case['expr'], kvs, args=dict(args0), bfuns=bf,
                                           symmetric=bool(case.get('upd_symmetric', False)),
                                           updatable=list(case.get('updatable') or []))
                    for k, step in enumerate(case['updates']):
                        kind, name, val = step
                        if kind == 'field':
                            if k % 2 == 0:
                                W.update(**{name: resolve(val, dim)})
                                A = W.assemble()
                            else:
                                A = W.assemble(**{name: resolve(val, dim)})
                        else:
                            W.asm.update_params(**{name: resolve(val, dim)})
                            A = W.assemble()
                        cur[name] = val
                        out_arr(res, 'upd%d' % k, dense(A))
                        fresh = make_asm(case, kvs, geo, override=dict(cur))
                        Af = assemble.assemble_entries(fresh, symmetric=bool(case.get('upd_symmetric', False)))
                        out_arr(res, 'fresh%d' % k, dense(Af))
                    res['status']['updates'] = 'Ok'
                except Exception as e:   # noqa
                    res['status']['updates'] = errclass(e) + ': ' + str(e)[:300]
            # on-demand assembler restricted to a bounding box of cells
            if full and case.get('bbox'):
                try:
                    if case['form'] == 'mass':
                        vf = vform.mass_vf(dim)
                    elif case['form'] == 'stiff':
                        vf = vform.stiffness_vf(dim)
                    else:
                        raise ValueError('bbox only for mass/stiff')
                    cls = pcompile.compile_vform(vf, on_demand=True)
                    vals = []
                    for bb in case['bbox']:
                        bbt = tuple((int(a), int(b)) for (a, b) in bb)
                        od = cls(kvs, geo, bbox=bbt)
                        # all pairs whose joint support lies inside the box
                        supp = [kv.mesh_support_idx_all() for kv in kvs]
                        ok = []
                        for (i, j) in zip(P[0].tolist(), P[1].tolist()):
                            mi = np.unravel_index(i, [kv.numdofs for kv in kvs])
                            mj = np.unravel_index(j, [kv.numdofs for kv in kvs])
                            inside = True
                            for d in range(dim):
                                a = max(supp[d][mi[d], 0], supp[d][mj[d], 0])
                                b = min(supp[d][mi[d], 1], supp[d][mj[d], 1])
                                if not (a < b and bbt[d][0] <= a and b <= bbt[d][1]):
                                    inside = False
                            if inside:
                                ok.append((i, j))
                        v = od.multi_entries(np.array(ok, dtype=np.int64).reshape(-1, 2)) if ok else np.zeros(0)
                        vals.append({'pairs': ok, 'vals': enc(v)})
                    res['info']['bbox'] = vals
                    res['status']['bbox'] = 'Ok'
                except Exception as e:   # noqa
                    res['status']['bbox'] = errclass(e) + ': ' + str(e)[:300]
            res['status']['case'] = 'Ok'
        except Exception as e:   # noqa
            res['status']['case'] = errclass(e) + ': ' + str(e)[:300]
            res['info']['trace'] = traceback.format_exc()[-1500:]
        res['info']['wall'] = round(time.time() - t0, 3)
        results.append(res)

    chunks = []
    for (n, k) in payload.get('chunks', []):
        try:
            cs = list(assemble_tools_cy.chunk_tasks(np.arange(int(n)), int(k)))
            chunks.append({'status': 'Ok', 'chunks': [[int(x) for x in c] for c in cs]})
        except Exception as e:   # noqa
            chunks.append({'status': errclass(e)})
    transp = []
    for b in payload.get('transp', []):
        try:
            t = get_transpose_idx_for_bidx(np.array(b, dtype=np.uint32).reshape(-1, 2))
            transp.append({'status': 'Ok', 't': [int(x) for x in t]})
        except Exception as e:   # noqa
            transp.append({'status': errclass(e)})
    print(json.dumps({'results': results, 'chunks': chunks, 'transp': transp, 'threads': nthreads}))


if __name__ == '__main__':
    main()
