(* C16 -- non-vacuity: concrete non-trivial inputs meet the hypotheses of the theorems
   (R := Z), and the two sides of each statement evaluate to the same non-zero numbers. *)
From Coq Require Import List Arith ZArith Lia.
From Verif.C16 Require Import Model Model2 Proofs Proofs2 Proofs3 Cases.
Import ListNotations.
Open Scope Z_scope.

(* apply_tprod_spec: a dense 2x3 operand, a None placeholder, an abstract 2x2 operand and one
   trailing axis of size 2 *)
Definition ex_ops : list (option (operand Z)) :=
  [Some (D 2 3 [1;2;3;4;5;6]); None; Some (A 2 2 [1;0;2;1])].
Definition ex_X : arr Z := zarr [3;2;2;2]%nat [1;2;3;4;5;6;7;8;9;10;11;12;13;14;15;16;17;18;19;20;21;22;23;24].

Example ex_tprod_shape : ashape Z ex_X = ([3;2;2] ++ [2])%nat.
Proof. reflexivity. Qed.
Example ex_tprod_conf : conf Z ex_ops [3;2;2]%nat.
Proof. simpl. auto. Qed.
Example ex_tprod_inr : inr [1;1;1]%nat (out_shape Z ex_ops [3;2;2]%nat) /\ inr [1]%nat [2]%nat.
Proof. split; repeat constructor. Qed.
Example ex_tprod_value :
  aat Z (apply_tprod Z zO Z.add Z.mul ex_ops ex_X) ([1;1;1] ++ [1])%nat = 708 /\
  tprod_spec Z zO Z.add Z.mul ex_ops (aat Z ex_X) ([1;1;1] ++ [1])%nat = 708.
Proof. vm_compute. auto. Qed.

(* kron_dense_spec_partial *)
Example ex_kron_core_shape :
  ashape Z (zarr [3;2;2]%nat [1;2;3;4;5;6;7;8;9;10;11;12]) =
  map (fun o => mcols Z (omat Z o)) [D 2 3 [1;2;3;4;5;6]; A 2 2 [1;0;2;1]] ++ [2%nat].
Proof. reflexivity. Qed.

(* modek_sparse_spec *)
Example ex_modek_inr : inr [1;1]%nat (remove_at 1 (ashape Z (zarr [2;3;2]%nat [1;2;3;4;5;6;7;8;9;10;11;12]))).
Proof. repeat constructor. Qed.
Example ex_modek_value :
  aat Z (modek_tensordot_sparse Z zO Z.add Z.mul (zmat 2 3 [1;2;3;4;5;6]) 1 (zarr [2;3;2]%nat [1;2;3;4;5;6;7;8;9;10;11;12])) [1;1;1]%nat = 154.
Proof. vm_compute. reflexivity. Qed.

(* block_spec / blockdiag_spec: a 2x3 and a 1x1 block *)
Definition ex_blocks := block_diagonal Z [zmat 2 3 [1;2;3;4;5;6]; zmat 1 1 [7]].
Example ex_block_bound : forall b, In b ex_blocks -> (pci Z b + mcols Z (pb Z b) <= 4)%nat.
Proof. intros b [<-|[<-|[]]]; simpl; lia. Qed.
Example ex_block_value :
  map (base_block_matvec Z zO Z.add Z.mul ex_blocks (zvec [1;1;1;2])) [0;1;2]%nat = [6; 15; 14].
Proof. vm_compute. reflexivity. Qed.

(* BlockOperator layout with a null block (executed, not a theorem) *)
Example ex_grid_value :
  map (base_block_matvec Z zO Z.add Z.mul
         (block_operator Z [[Some (zmat 1 2 [1;2]); None]; [Some (zmat 2 2 [1;0;0;1]); Some (zmat 2 1 [5;6])]] [1;2]%nat [2;1]%nat)
         (zvec [1;2;3])) [0;1;2]%nat = [5; 16; 20].
Proof. vm_compute. reflexivity. Qed.

(* diag_spec / identity_spec *)
Example ex_diag : diagonal_matvec Z Z.mul (zvec [2;3]) (zvec [5;7]) 1%nat = 21 /\ (1 < 2)%nat.
Proof. split. vm_compute. reflexivity. lia. Qed.

(* subspace_spec / subspace_transpose: two overlapping prolongations, non-symmetric B *)
Definition ex_PB := [(zmat 3 2 [1;0;0;1;0;0], zmat 2 2 [1;2;3;4]); (zmat 3 2 [0;0;1;0;1;1], zmat 2 2 [0;1;-1;2])].
Example ex_subspace_rows : forall pb, In pb ex_PB -> mrows Z (fst pb) = 3%nat.
Proof. intros pb [<-|[<-|[]]]; reflexivity. Qed.
Example ex_subspace_square : forall pb, In pb ex_PB ->
  mcols Z (snd pb) = mcols Z (fst pb) /\ mrows Z (snd pb) = mcols Z (fst pb).
Proof. intros pb [<-|[<-|[]]]; split; reflexivity. Qed.
Example ex_subspace_value :
  map (subspace_matvec Z zO Z.add Z.mul false ex_PB (zvec [1;2;3])) [0;1;2]%nat = [5; 14; 4] /\
  map (subspace_matvec Z zO Z.add Z.mul true ex_PB (zvec [1;2;3])) [0;1;2]%nat = [7; 7; 8].
Proof. vm_compute. auto. Qed.

(* rowslice_spec / rowsubset_spec: a CSR structure with an unsorted row and a duplicate entry *)
Definition ex_csr : csr Z := mkcsr Z 3 3 [0;2;2;5]%nat [2;0;1;1;0]%nat [5;1;2;3;4].
Example ex_csr_wf : csr_wf Z ex_csr.
Proof. intros q Hq. simpl in Hq. do 5 (destruct q as [|q]; [simpl; lia|]). simpl in Hq. lia. Qed.
Example ex_csr_ptr : forall r, (r < 3)%nat -> (nth (S r) (c_indptr Z ex_csr) 0 <= length (c_indices Z ex_csr))%nat.
Proof. intros r Hr. do 3 (destruct r as [|r]; [simpl; lia|]). lia. Qed.
Example ex_csr_value :
  map (csr_rowslice Z zO Z.add Z.mul ex_csr 1 3 (zvec [1;10;100])) [0;1]%nat = [0; 54] /\
  map (csr_rowsubset Z zO Z.add Z.mul ex_csr [2;0;2]%nat (zvec [1;10;100])) [0;1;2]%nat = [54; 501; 54].
Proof. vm_compute. auto. Qed.

(* the column-major Kronecker routine on a 2x2 (x) 2x2 example (executed, not a theorem) *)
Example ex_linops_value :
  to_list (apply_kronecker_linops Z zO Z.add Z.mul [A 2 2 [1;2;3;4]; A 2 2 [1;0;2;1]] (zarr [4;2]%nat [1;2;3;4;5;6;7;8]))
  = [11; 14; 39; 48; 23; 30; 83; 104].
Proof. vm_compute. reflexivity. Qed.

(* ---- second part: Kronecker / grid / solver theorems ---- *)
(* kron_dense_spec, kron_operator_spec: 2x3 (x) 2x2, flat index *)
Definition ex_kops : list (operand Z) := [D 2 3 [1;2;3;4;5;6]; A 2 2 [1;0;2;1]].
Example ex_kron_shape : ashape Z (zarr [6]%nat [1;2;3;4;5;6]) = [prodl (map (fun o => mcols Z (omat Z o)) ex_kops)].
Proof. reflexivity. Qed.
Example ex_kron_value :
  aat Z (kronecker_operator Z zO Z.add Z.mul ex_kops (zarr [6]%nat [1;2;3;4;5;6])) [3%nat] = 162 /\
  sumn Z zO Z.add 6 (fun j => kron_ent Z 1 Z.mul (map (omat Z) ex_kops) 3 j * aat Z (zarr [6]%nat [1;2;3;4;5;6]) [j]) = 162.
Proof. vm_compute. auto. Qed.

(* kron_linops_spec / kron_transpose: square abstract factors *)
Definition ex_sq : list (operand Z) := [A 2 2 [1;2;3;4]; A 3 3 [1;0;2;0;1;0;1;1;1]].
Example ex_squares : squares Z ex_sq.
Proof. repeat constructor. Qed.

(* modek_tprod_spec *)
Example ex_modek_tprod_inr :
  inr (remove_at 1 [1;1;0]%nat) (remove_at 1 (ashape Z (zarr [2;3;2]%nat [1;2;3;4;5;6;7;8;9;10;11;12]))).
Proof. repeat constructor. Qed.

(* grid_block_spec: 2x2 grid with a null block *)
Definition ex_grid : list (list (option (mat Z))) :=
  [[Some (zmat 1 2 [1;2]); None]; [Some (zmat 2 2 [1;0;0;1]); Some (zmat 2 1 [5;6])]].
Example ex_wf_grid : wf_grid Z ex_grid [1;2]%nat [2;1]%nat.
Proof. repeat constructor. Qed.
Example ex_grid_rows : forall b, In b (block_operator Z ex_grid [1;2]%nat [2;1]%nat) ->
  (pro Z b + mrows Z (pb Z b) <= suml [1;2]%nat)%nat.
Proof. intros b [<-|[<-|[<-|[]]]]; simpl; lia. Qed.

(* kron_solver_inverts: B = [[1,1],[0,1]] (x) [[1,0],[2,1]] with their integer inverses *)
Definition ex_Bs : list (mat Z) := [zmat 2 2 [1;1;0;1]; zmat 2 2 [1;0;2;1]].
Definition ex_Binvs : list (operand Z) := [A 2 2 [1;-1;0;1]; A 2 2 [1;0;-2;1]].
Example ex_compat : compat Z ex_Bs (map (omat Z) ex_Binvs).
Proof. repeat constructor. Qed.
Example ex_deltas : deltas Z 0 1 (mmuls Z zO Z.add Z.mul ex_Bs (map (omat Z) ex_Binvs)).
Proof.
  repeat constructor; simpl; intros i l Hi Hl;
    (destruct i as [|[|i]]; [| |lia]); (destruct l as [|[|l]]; [| |lia]); reflexivity.
Qed.
Example ex_solver_value :
  map (fun i => sumn Z zO Z.add 4 (fun j => kron_ent Z 1 Z.mul ex_Bs i j *
         aat Z (kronecker_operator Z zO Z.add Z.mul ex_Binvs (zarr [4]%nat [1;2;3;4])) [j])) [0;1;2;3]%nat = [1;2;3;4].
Proof. vm_compute. reflexivity. Qed.

(* fastdiag_inverts: two directions; eigenvalues (1,-1) and (0,0) so that the eigenvalue sums
   are invertible over Z; U = the 2x2 exchange matrix, M = I *)
Definition ex_f1 : eigfac Z := mkeig Z (zmat 2 2 [-1;0;0;1]) (zmat 2 2 [1;0;0;1]) (zmat 2 2 [0;1;1;0]) (zvec [1;-1]) 2.
Definition ex_f2 : eigfac Z := mkeig Z (zmat 2 2 [0;0;0;0]) (zmat 2 2 [1;0;0;1]) (zmat 2 2 [0;1;1;0]) (zvec [0;0]) 2.
Example ex_eig_ok : Forall (eig_ok Z 0 1 Z.add Z.mul) [ex_f1; ex_f2].
Proof.
  repeat constructor; simpl; intros i l Hi Hl;
    (destruct i as [|[|i]]; [| |lia]); (destruct l as [|[|l]]; [| |lia]); reflexivity.
Qed.
Example ex_dinv : forall c, (c < prodl (sizes Z [ex_f1; ex_f2]))%nat ->
  diag_ev Z zO Z.add [ex_f1; ex_f2] c * zvec [1;1;-1;-1] c = 1.
Proof. intros c Hc. simpl in Hc. do 4 (destruct c as [|c]; [reflexivity|]). lia. Qed.
Example ex_fastdiag_value :
  map (fun i => sumn Z zO Z.add 4 (fun j => lap_ent Z 0 1 Z.add Z.mul [ex_f1; ex_f2] i j *
         aat Z (fastdiag_apply Z zO Z.add Z.mul [D 2 2 [0;1;1;0]; D 2 2 [0;1;1;0]] (zvec [1;1;-1;-1]) (zarr [4]%nat [1;2;3;4])) [j]))
      [0;1;2;3]%nat = [1;2;3;4].
Proof. vm_compute. reflexivity. Qed.

(* ---- third part ---- *)
(* kron_reduce_spec: the left-nested product of three factors, an in-range entry *)
Definition ex_three : list (mat Z) := [zmat 2 3 [1;2;3;4;5;6]; zmat 2 2 [1;0;2;1]; zmat 1 2 [3;-1]].
Example ex_kron_reduce :
  ment Z (kron_reduce Z 1 Z.mul ex_three) 3 11 = -6 /\ kron_ent Z 1 Z.mul ex_three 3 11 = -6 /\
  (3 < prodl (rowsl Z ex_three))%nat /\ (11 < prodl (colsl Z ex_three))%nat.
Proof. vm_compute. repeat split; lia. Qed.

(* lap_code_spec / diag_code_spec on the two-direction example of ex_eig_ok *)
Example ex_lap_code :
  map (fun ij => fastdiag_lap_code Z 0 1 Z.add Z.mul (map (fK Z) [ex_f1; ex_f2]) (map (fM Z) [ex_f1; ex_f2]) (fst ij) (snd ij))
      [(0,0);(1,1);(2,2);(3,3);(0,1)]%nat = [-1; -1; 1; 1; 0] /\
  map (fun ij => lap_ent Z 0 1 Z.add Z.mul [ex_f1; ex_f2] (fst ij) (snd ij)) [(0,0);(1,1);(2,2);(3,3);(0,1)]%nat = [-1; -1; 1; 1; 0].
Proof. vm_compute. auto. Qed.
Example ex_diag_code :
  map (fastdiag_diag_code Z 0 1 Z.add Z.mul (sizes Z [ex_f1; ex_f2]) (map (flam Z) [ex_f1; ex_f2])) [0;1;2;3]%nat = [1;1;-1;-1].
Proof. vm_compute. reflexivity. Qed.

(* fastdiag_inverts_multi: two right-hand sides *)
Example ex_fastdiag_multi :
  map (fun ik => sumn Z zO Z.add 4 (fun j => lap_ent Z 0 1 Z.add Z.mul [ex_f1; ex_f2] (fst ik) j *
         aat Z (fastdiag_apply_mat Z zO Z.add Z.mul [D 2 2 [0;1;1;0]; D 2 2 [0;1;1;0]] (zvec [1;1;-1;-1])
                  (zarr [4;2]%nat [1;5;2;6;3;7;4;8])) [j; snd ik]))
      [(0,0);(1,0);(2,0);(3,0);(0,1);(3,1)]%nat = [1;2;3;4;5;8].
Proof. vm_compute. reflexivity. Qed.
