(* C11 -- non-vacuity of smoothing_sets_spec_all: on a reachable 3-level C04 state the strategies
   trunc and func_supp return lists that strictly extend `new` by coarse-level functions. *)
From Coq Require Import List Arith Lia Bool.
From Verif.lib Require Import FinSet.
From Verif.C04 Require Import Model Boundary Children.
From Verif.C11 Require Import SmoothSets SmoothSets2 ExamplesSets.
Import ListNotations.

Definition sx_out2 := Eval vm_compute in
  (smooth_new sx_st sx_bds 1, smooth_trunc sx_st sx_bds 1, smooth_func_supp sx_st sx_bds 1,
   smooth_trunc sx_st sx_bds 2, smooth_func_supp sx_st sx_bds 2).

Example sx_smooth2 :
  (smooth_new sx_st sx_bds 1, smooth_trunc sx_st sx_bds 1, smooth_func_supp sx_st sx_bds 1,
   smooth_trunc sx_st sx_bds 2, smooth_func_supp sx_st sx_bds 2) = sx_out2.
Proof. vm_compute. reflexivity. Qed.

Example sx_nontrivial2 :
  match sx_out2 with
  | (Some N, Some T1, Some F1, Some T2, Some F2) =>
      (0 < length N < length T1)%nat /\ (length N < length F1)%nat /\ (0 < length T2)%nat /\ (0 < length F2)%nat
  | _ => False
  end.
Proof. vm_compute. repeat split; lia. Qed.
