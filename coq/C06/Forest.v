(* C06 -- passes on forests: expressions with variable references (a DAG through names).
   Applying a value-preserving node function to every definition once (mapexprs with its `seen`
   set visits a shared node once) leaves the environment computed by the emitted order unchanged,
   and adding definitions of fresh names (helper variables) does not change existing values. *)
From Coq Require Import List String Bool Arith Lia.
From Verif.C06 Require Import Model Sched.
Import ListNotations.

Section Forest.
Variable F : Type.
Variables (f0 : F) (fadd fmul fsub fdiv : F -> F -> F) (fopp : F -> F).
Notation eval := (eval F fadd fmul fsub fdiv fopp).
Notation expr := (expr F).
Notation texpr := (texpr F).
Notation env := (env F).
Notation eval_defs := (eval_defs F f0 fadd fmul fsub fdiv fopp).
Notation bind := (bind F f0).

(* ---- the pass on a definition: literal tensors entry by entry; a non-literal tensor root
   (gone after _to_literal_vec_mat) is left alone ------------------------------------------------- *)
Definition ttransform (f : expr -> option expr) (t : texpr) : option texpr :=
  match t with
  | TS e => match transform F f e with Some e' => Some (TS e') | None => None end
  | TLV es => match omap (transform F f) es with Some es' => Some (TLV es') | None => None end
  | TLM r c es => match omap (transform F f) es with Some es' => Some (TLM r c es') | None => None end
  | _ => Some t
  end.

Definition transform_forest (f : expr -> option expr) (ds : list (def F)) : option (list (def F)) :=
  omap (fun d => match ttransform f (snd d) with Some t' => Some (fst d, t') | None => None end) ds.

Definition sound_in (en : env) (f : expr -> option expr) : Prop :=
  forall e e', f e = Some e' -> eval en e' = eval en e.

Lemma transform_sound_f : forall en f, sound_in en f -> sound_in en (transform F f).
Proof.
  intros en f Hf e. induction e; intros e' H; simpl in H; try (apply Hf; assumption).
  - destruct (transform F f e) as [x'|] eqn:E; [|discriminate].
    rewrite (Hf _ _ H). simpl. rewrite (IHe x' eq_refl). reflexivity.
  - destruct (transform F f e) as [x'|] eqn:E; [|discriminate].
    rewrite (Hf _ _ H). simpl. rewrite (IHe x' eq_refl). reflexivity.
  - destruct (transform F f e1) as [x'|] eqn:E1; [|discriminate].
    destruct (transform F f e2) as [y'|] eqn:E2; [|discriminate].
    rewrite (Hf _ _ H). simpl. rewrite (IHe1 x' eq_refl), (IHe2 y' eq_refl). reflexivity.
Qed.

(* two entry lists related entry by entry *)
Definition rel_opt (R : expr -> expr -> Prop) (a b : option expr) : Prop :=
  match a, b with Some x, Some y => R x y | None, None => True | _, _ => False end.

Lemma omap_Forall2 : forall (g : expr -> option expr) es es',
  omap g es = Some es' -> Forall2 (fun e e' => g e = Some e') es es'.
Proof.
  induction es; intros es' H; simpl in H.
  - inversion H. constructor.
  - destruct (g a) eqn:Ea; [|discriminate]. destruct (omap g es) eqn:Eo; [|discriminate].
    inversion H; subst. constructor; auto.
Qed.

Lemma Forall2_nth_error : forall (R : expr -> expr -> Prop) l l', Forall2 R l l' ->
  forall k, rel_opt R (nth_error l k) (nth_error l' k).
Proof.
  intros R l l' H. induction H; intros k; destruct k; simpl; auto.
Qed.

Lemma omap_rel : forall (A : Type) (R : expr -> expr -> Prop) (g g' : A -> option expr) l,
  (forall x, rel_opt R (g x) (g' x)) ->
  match omap g l, omap g' l with
  | Some ys, Some ys' => Forall2 R ys ys'
  | None, None => True
  | _, _ => False
  end.
Proof.
  intros A R g g' l H. induction l as [|a l IH]; simpl; [constructor|].
  specialize (H a). unfold rel_opt in H.
  destruct (g a), (g' a); try contradiction;
    destruct (omap g l), (omap g' l); try contradiction; auto.
Qed.

Lemma Forall2_map_eval : forall (en : env) l l',
  Forall2 (fun e e' => eval en e' = eval en e) l l' -> map (eval en) l' = map (eval en) l.
Proof. intros en l l' H. induction H; simpl; congruence. Qed.

Lemma Forall2_length : forall (R : expr -> expr -> Prop) l l', Forall2 R l l' -> List.length l = List.length l'.
Proof. intros R l l' H. induction H; simpl; congruence. Qed.

(* the transformed definition has the same shape, and its entries exist iff the original ones do,
   with the same values *)
Lemma ttransform_entries : forall (en : env) f t t',
  sound_in en f -> ttransform f t = Some t' ->
  tshape F t' = tshape F t /\
  match tentries F t, tentries F t' with
  | Some es, Some es' => map (eval en) es' = map (eval en) es
  | None, None => True
  | _, _ => False
  end.
Proof.
  intros en f t t' Hf H.
  assert (Ht := transform_sound_f en f Hf).
  destruct t; simpl in H.
  - destruct (transform F f e) eqn:E; inversion H; subst. split; [reflexivity|].
    unfold tentries. simpl. rewrite (Ht _ _ E). reflexivity.
  - destruct (omap (transform F f) es) as [es'|] eqn:E; inversion H; subst.
    apply omap_Forall2 in E.
    assert (Hl := Forall2_length _ _ _ E).
    split; [simpl; congruence|].
    unfold tentries. simpl. rewrite <- Hl.
    assert (HR : Forall2 (fun e e' => eval en e' = eval en e) es es').
    { clear Hl. induction E; constructor; auto. }
    pose proof (omap_rel nat _ (fun i => nth_error es i) (fun i => nth_error es' i) (seq 0 (List.length es))
                  (fun i => Forall2_nth_error _ _ _ HR i)) as Hm.
    cbv beta in Hm.
    destruct (omap (fun i => nth_error es i) (seq 0 (List.length es))),
             (omap (fun i => nth_error es' i) (seq 0 (List.length es))); try contradiction; auto.
    apply Forall2_map_eval. assumption.
  - destruct (omap (transform F f) es) as [es'|] eqn:E; inversion H; subst.
    apply omap_Forall2 in E.
    split; [reflexivity|].
    unfold tentries. simpl.
    assert (HR : Forall2 (fun e e' => eval en e' = eval en e) es es').
    { induction E; constructor; auto. }
    pose proof (omap_rel (nat * nat) (fun e e' => eval en e' = eval en e)
                  (fun ij => if (fst ij <? r) && (snd ij <? c) then nth_error es (fst ij * c + snd ij) else None)
                  (fun ij => if (fst ij <? r) && (snd ij <? c) then nth_error es' (fst ij * c + snd ij) else None)
                  (flat_map (fun i => map (fun j => (i, j)) (seq 0 c)) (seq 0 r))) as Hm.
    cbv beta in Hm.
    match type of Hm with ?A -> _ => assert (HA : A) end.
    { intros [i j]. simpl. destruct ((i <? r) && (j <? c)); [apply Forall2_nth_error; assumption | exact I]. }
    specialize (Hm HA).
    destruct (omap _ _), (omap _ _); try contradiction; auto.
    apply Forall2_map_eval. assumption.
  - inversion H; subst. split; [reflexivity|]. destruct (tentries F (TOp o t1 t2)); auto.
  - inversion H; subst. split; [reflexivity|]. destruct (tentries F (TCross t1 t2)); auto.
  - inversion H; subst. split; [reflexivity|]. destruct (tentries F (TOuter t1 t2)); auto.
  - inversion H; subst. split; [reflexivity|]. destruct (tentries F (TMatVec t1 t2)); auto.
  - inversion H; subst. split; [reflexivity|]. destruct (tentries F (TMatMat t1 t2)); auto.
Qed.

Lemma transform_forest_cons : forall f n t r,
  transform_forest f ((n, t) :: r) =
  match ttransform f t with
  | Some t' => match transform_forest f r with Some r' => Some ((n, t') :: r') | None => None end
  | None => None
  end.
Proof. intros. unfold transform_forest. simpl. destruct (ttransform f t); reflexivity. Qed.

(* ---- transform_forest_sound --------------------------------------------------------------------- *)
(* [P] describes the environments in which the node function preserves values; it must be stable under
   binding a variable (every environment met while the definitions are evaluated satisfies it). *)
Theorem transform_forest_sound_l : forall (P : env -> Prop) f,
  (forall en name shape vals, P en -> P (bind en name shape vals)) ->
  (forall en, P en -> sound_in en f) ->
  forall ds ds' en, P en -> transform_forest f ds = Some ds' ->
  eval_defs en ds' = eval_defs en ds.
Proof.
  intros P f Hbind Hsound. induction ds as [|[name t] r IH]; intros ds' en HP H.
  - inversion H. reflexivity.
  - rewrite transform_forest_cons in H.
    destruct (ttransform f t) as [t'|] eqn:Et; [|discriminate].
    destruct (transform_forest f r) as [r'|] eqn:Er; [|discriminate]. inversion H; subst. clear H.
    destruct (ttransform_entries en f t t' (Hsound en HP) Et) as [Hsh Hen].
    simpl. rewrite Hsh.
    destruct (tentries F t) as [es|], (tentries F t') as [es'|]; try contradiction.
    + rewrite Hen. apply IH; [apply Hbind; assumption | reflexivity].
    + apply IH; [assumption | reflexivity].
Qed.

(* a sequence of forest passes *)
Fixpoint run_forest (fs : list (expr -> option expr)) (ds : list (def F)) : option (list (def F)) :=
  match fs with
  | [] => Some ds
  | f :: r => match transform_forest f ds with Some ds' => run_forest r ds' | None => None end
  end.

Theorem run_forest_sound_l : forall (P : env -> Prop) fs,
  (forall en name shape vals, P en -> P (bind en name shape vals)) ->
  Forall (fun f => forall en, P en -> sound_in en f) fs ->
  forall ds ds' en, P en -> run_forest fs ds = Some ds' ->
  eval_defs en ds' = eval_defs en ds.
Proof.
  intros P fs Hbind Hfs. induction Hfs as [|f r Hf Hr IH]; intros ds ds' en HP H; simpl in H.
  - inversion H. reflexivity.
  - destruct (transform_forest f ds) as [d1|] eqn:E; [|discriminate].
    rewrite (IH d1 ds' en HP H). apply (transform_forest_sound_l P f Hbind Hf ds d1 en HP E).
Qed.

(* ---- add_helper_defs_sound ------------------------------------------------------------------------ *)
Lemma eval_defs_app : forall ds1 ds2 (en : env), eval_defs en (ds1 ++ ds2) = eval_defs (eval_defs en ds1) ds2.
Proof.
  induction ds1 as [|[n t] r IH]; intros ds2 en; simpl; [reflexivity|].
  destruct (tentries F t); apply IH.
Qed.

(* two environments that differ at most on the names in X *)
Definition agree_outside (X : list string) (en1 en2 : env) : Prop :=
  e_pd en1 = e_pd en2 /\ e_gw en1 = e_gw en2 /\ e_dx en1 = e_dx en2 /\ e_ds en1 = e_ds en2 /\ e_fn en1 = e_fn en2 /\
  forall n, ~ In n X -> forall Ix D p, e_vr en1 n Ix D p = e_vr en2 n Ix D p.

Definition mentions_none (X : list string) (ds : list (def F)) : Prop :=
  forall name t es e v, In (name, t) ds -> tentries F t = Some es -> In e es -> In v (vrefs F e) -> ~ In v X.

Lemma eval_defs_agree : forall X ds (en1 en2 : env),
  agree_outside X en1 en2 -> mentions_none X ds ->
  agree_outside X (eval_defs en1 ds) (eval_defs en2 ds).
Proof.
  intros X. induction ds as [|[name t] r IH]; intros en1 en2 Ha Hm; simpl; [assumption|].
  assert (Hm' : mentions_none X r).
  { intros n' t' es e v Hin. apply (Hm n' t' es e v). right. assumption. }
  destruct (tentries F t) as [es|] eqn:Ees; [|apply IH; assumption].
  apply IH; [|assumption].
  destruct Ha as [H1 [H2 [H3 [H4 [H5 H6]]]]].
  assert (Hv : map (eval en1) es = map (eval en2) es).
  { apply map_ext_in. intros e He. apply eval_ext_pw; auto.
    intros v Hv Ix D p. apply H6. apply (Hm name t es e v); auto. left. reflexivity. }
  repeat split; simpl; auto.
  intros n Hn Ix D p. rewrite Hv. destruct (String.eqb n name); [reflexivity|]. apply H6. assumption.
Qed.

(* evaluating helper definitions first changes nothing outside the helper names, provided the old
   definitions do not mention them (the helpers have FRESH names) *)
Theorem add_helper_defs_sound_l : forall (extra ds : list (def F)) (en : env),
  mentions_none (map fst extra) ds ->
  forall n, ~ In n (map fst extra) ->
  forall Ix D p, e_vr (eval_defs en (extra ++ ds)) n Ix D p = e_vr (eval_defs en ds) n Ix D p.
Proof.
  intros extra ds en Hm n Hn Ix D p. rewrite eval_defs_app.
  assert (Ha : agree_outside (map fst extra) (eval_defs en extra) en).
  { destruct (eval_defs_frame F f0 fadd fmul fsub fdiv fopp extra en) as [H1 [H2 [H3 [H4 [H5 H6]]]]].
    repeat split; auto. }
  destruct (eval_defs_agree (map fst extra) ds _ _ Ha Hm) as [_ [_ [_ [_ [_ H6]]]]].
  apply H6. assumption.
Qed.

End Forest.
