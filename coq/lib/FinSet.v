(* Finite sets of multi-indices (Python tuples of ints) as strictly sorted lists.

   Order = Python's tuple order (lexicographic, a proper prefix is smaller).
   All membership characterisations ([union_In], [inter_In], [diff_In], [mem_In],
   [of_list_In]) hold for ARBITRARY lists; strict sortedness ([sorted]) is a separate
   invariant that every operation preserves, and two sorted lists with the same
   elements are equal ([sorted_ext]): the list is a canonical representative of the set.
   Used by C04 (and C03/C05/C11 on top of it). *)
From Coq Require Import List Arith Bool Lia Sorted RelationClasses.
Import ListNotations.

Definition mi := list nat.           (* a multi-index (i_1, ..., i_d) *)

Fixpoint mi_cmp (a b : mi) : comparison :=
  match a, b with
  | [], [] => Eq
  | [], _ :: _ => Lt
  | _ :: _, [] => Gt
  | x :: a', y :: b' => match Nat.compare x y with Eq => mi_cmp a' b' | c => c end
  end.

Definition mi_eqb (a b : mi) : bool := match mi_cmp a b with Eq => true | _ => false end.
Definition mi_lt (a b : mi) : Prop := mi_cmp a b = Lt.

Definition set := list mi.

Fixpoint mem (x : mi) (s : set) : bool :=
  match s with [] => false | y :: s' => mi_eqb x y || mem x s' end.

(* merge; equal heads are kept once *)
Fixpoint union (a : set) : set -> set :=
  match a with
  | [] => fun b => b
  | x :: a' =>
      fix aux (b : set) : set :=
        match b with
        | [] => x :: a'
        | y :: b' =>
            match mi_cmp x y with
            | Lt => x :: union a' (y :: b')
            | Eq => x :: union a' b'
            | Gt => y :: aux b'
            end
        end
  end.

Definition inter (a b : set) : set := filter (fun x => mem x b) a.
Definition diff (a b : set) : set := filter (fun x => negb (mem x b)) a.
Definition subset (a b : set) : bool := forallb (fun x => mem x b) a.
Definition disjoint (a b : set) : bool := forallb (fun x => negb (mem x b)) a.
Definition is_empty (a : set) : bool := match a with [] => true | _ => false end.

(* set(iterable): any order, repetitions allowed *)
Definition of_list (l : list mi) : set := fold_right (fun x s => union [x] s) [] l.

Fixpoint set_eqb (a b : set) : bool :=
  match a, b with
  | [], [] => true
  | x :: a', y :: b' => mi_eqb x y && set_eqb a' b'
  | _, _ => false
  end.

Definition sorted (s : set) : Prop := Sorted mi_lt s.

(* executable sortedness test (used in case files / examples) *)
Fixpoint sortedb (s : set) : bool :=
  match s with
  | [] => true
  | x :: s' => match s' with [] => true | y :: _ => match mi_cmp x y with Lt => true | _ => false end end && sortedb s'
  end.

(* ------------------------------------------------------------------------- *)
(* order facts *)

Lemma mi_cmp_eq : forall a b, mi_cmp a b = Eq <-> a = b.
Proof.
  induction a as [|x a IH]; destruct b as [|y b]; simpl; try (split; congruence).
  destruct (Nat.compare x y) eqn:E.
  - apply Nat.compare_eq in E; subst. rewrite IH. split; congruence.
  - split; try congruence. intros H; inversion H; subst. rewrite Nat.compare_refl in E; congruence.
  - split; try congruence. intros H; inversion H; subst. rewrite Nat.compare_refl in E; congruence.
Qed.

Lemma mi_cmp_refl : forall a, mi_cmp a a = Eq.
Proof. intros; apply mi_cmp_eq; reflexivity. Qed.

Lemma mi_cmp_antisym : forall a b, mi_cmp b a = CompOpp (mi_cmp a b).
Proof.
  induction a as [|x a IH]; destruct b as [|y b]; simpl; try reflexivity.
  rewrite (Nat.compare_antisym x y). destruct (Nat.compare x y); simpl; auto.
Qed.

Lemma mi_eqb_eq : forall a b, mi_eqb a b = true <-> a = b.
Proof.
  intros; unfold mi_eqb. rewrite <- mi_cmp_eq. destruct (mi_cmp a b); split; congruence.
Qed.

Lemma mi_lt_irrefl : forall a, ~ mi_lt a a.
Proof. intros a H; unfold mi_lt in H; rewrite mi_cmp_refl in H; congruence. Qed.

Lemma mi_lt_trans : forall a b c, mi_lt a b -> mi_lt b c -> mi_lt a c.
Proof.
  unfold mi_lt. induction a as [|x a IH]; destruct b as [|y b]; destruct c as [|z c]; simpl; try congruence.
  destruct (Nat.compare x y) eqn:E1; destruct (Nat.compare y z) eqn:E2; try congruence; intros H1 H2.
  - apply Nat.compare_eq in E1; apply Nat.compare_eq in E2; subst. rewrite Nat.compare_refl. eauto.
  - apply Nat.compare_eq in E1; subst. rewrite E2; reflexivity.
  - apply Nat.compare_eq in E2; subst. rewrite E1; reflexivity.
  - apply Nat.compare_lt_iff in E1; apply Nat.compare_lt_iff in E2.
    assert (x < z) by lia. apply Nat.compare_lt_iff in H. rewrite H; reflexivity.
Qed.

Global Instance mi_lt_Transitive : Transitive mi_lt.
Proof. exact mi_lt_trans. Qed.

Lemma mi_gt_lt : forall a b, mi_cmp a b = Gt -> mi_lt b a.
Proof. intros a b H; unfold mi_lt; rewrite mi_cmp_antisym, H; reflexivity. Qed.

(* ------------------------------------------------------------------------- *)
(* membership characterisations (no sortedness needed) *)

Lemma mem_In : forall x s, mem x s = true <-> In x s.
Proof.
  induction s as [|y s IH]; simpl.
  - split; [congruence | tauto].
  - rewrite orb_true_iff, IH, mi_eqb_eq. split; intros [H|H]; auto.
Qed.

Lemma mem_false_In : forall x s, mem x s = false <-> ~ In x s.
Proof. intros; rewrite <- mem_In. destruct (mem x s); split; congruence. Qed.

Lemma In_dec_mi : forall (x : mi) s, In x s \/ ~ In x s.
Proof. intros; rewrite <- mem_In. destruct (mem x s); [left | right]; congruence. Qed.

Lemma union_nil_r : forall a, union a [] = a.
Proof. destruct a; reflexivity. Qed.

Lemma union_In : forall z a b, In z (union a b) <-> In z a \/ In z b.
Proof.
  induction a as [|x a IHa]; [simpl; tauto|].
  induction b as [|y b IHb]; [simpl; tauto|].
  simpl. destruct (mi_cmp x y) eqn:E.
  - apply mi_cmp_eq in E; subst. simpl. rewrite IHa. tauto.
  - simpl. rewrite IHa. simpl. tauto.
  - simpl in IHb. simpl. rewrite IHb. simpl. tauto.
Qed.

Lemma inter_In : forall z a b, In z (inter a b) <-> In z a /\ In z b.
Proof. intros; unfold inter; rewrite filter_In, mem_In; tauto. Qed.

Lemma diff_In : forall z a b, In z (diff a b) <-> In z a /\ ~ In z b.
Proof. intros; unfold diff; rewrite filter_In, negb_true_iff, mem_false_In; tauto. Qed.

Lemma of_list_In : forall z l, In z (of_list l) <-> In z l.
Proof.
  induction l as [|x l IH]; [simpl; tauto|].
  change (of_list (x :: l)) with (union [x] (of_list l)).
  rewrite union_In, IH. simpl. tauto.
Qed.

Lemma subset_spec : forall a b, subset a b = true <-> (forall x, In x a -> In x b).
Proof.
  intros; unfold subset; rewrite forallb_forall. split; intros H x Hx.
  - apply mem_In; auto.
  - apply mem_In; auto.
Qed.

Lemma disjoint_spec : forall a b, disjoint a b = true <-> (forall x, In x a -> ~ In x b).
Proof.
  intros; unfold disjoint; rewrite forallb_forall. split; intros H x Hx.
  - apply mem_false_In, negb_true_iff; auto.
  - apply negb_true_iff, mem_false_In; auto.
Qed.

Lemma is_empty_spec : forall a, is_empty a = true <-> a = [].
Proof. destruct a; simpl; split; congruence. Qed.

Lemma set_eqb_eq : forall a b, set_eqb a b = true <-> a = b.
Proof.
  induction a as [|x a IH]; destruct b as [|y b]; simpl; try (split; congruence).
  rewrite andb_true_iff, mi_eqb_eq, IH. split; [intros [? ?]; congruence | intros H; inversion H; auto].
Qed.

(* ------------------------------------------------------------------------- *)
(* sortedness is preserved *)

Lemma sorted_nil : sorted [].
Proof. constructor. Qed.

Lemma sorted_single : forall x, sorted [x].
Proof. repeat constructor. Qed.

Lemma HdRel_union : forall z a b, HdRel mi_lt z a -> HdRel mi_lt z b -> HdRel mi_lt z (union a b).
Proof.
  intros z a b Ha Hb. destruct a as [|x a]; [simpl; auto|]. destruct b as [|y b]; [simpl; auto|].
  simpl. inversion Ha; inversion Hb; subst. destruct (mi_cmp x y); constructor; auto.
Qed.

Lemma union_sorted : forall a b, sorted a -> sorted b -> sorted (union a b).
Proof.
  unfold sorted. induction a as [|x a IHa]; [simpl; auto|].
  induction b as [|y b IHb]; intros Ha Hb; [simpl; auto|].
  inversion Ha as [|? ? Sa Ra]; inversion Hb as [|? ? Sb Rb]; subst.
  simpl. destruct (mi_cmp x y) eqn:E.
  - apply mi_cmp_eq in E; subst. constructor; [apply IHa; auto|]. apply HdRel_union; auto.
  - constructor; [apply IHa; auto|]. apply HdRel_union; auto.
  - constructor.
    + apply (IHb Ha Sb).
    + apply mi_gt_lt in E.
      destruct b as [|y' b]; [constructor; auto|].
      inversion Rb; subst. simpl. destruct (mi_cmp x y'); constructor; auto.
Qed.

Lemma sorted_strong : forall s, sorted s -> StronglySorted mi_lt s.
Proof. intros; apply Sorted_StronglySorted; auto. exact mi_lt_trans. Qed.

Lemma strong_sorted : forall s, StronglySorted mi_lt s -> sorted s.
Proof. intros; apply StronglySorted_Sorted; auto. Qed.

Lemma filter_sorted : forall f s, sorted s -> sorted (filter f s).
Proof.
  intros f s H. apply strong_sorted. apply sorted_strong in H.
  induction H as [|x s Hs IH Hall]; simpl; [constructor|].
  destruct (f x); auto. constructor; auto.
  rewrite Forall_forall in *. intros y Hy. apply filter_In in Hy. apply Hall; tauto.
Qed.

Lemma inter_sorted : forall a b, sorted a -> sorted (inter a b).
Proof. intros; apply filter_sorted; auto. Qed.

Lemma diff_sorted : forall a b, sorted a -> sorted (diff a b).
Proof. intros; apply filter_sorted; auto. Qed.

Lemma of_list_sorted : forall l, sorted (of_list l).
Proof.
  induction l as [|x l IH]; [apply sorted_nil|].
  change (of_list (x :: l)) with (union [x] (of_list l)).
  apply union_sorted; auto. apply sorted_single.
Qed.

Lemma sortedb_sorted : forall s, sortedb s = true -> sorted s.
Proof.
  induction s as [|x s IH]; intros H; [constructor|].
  simpl in H. apply andb_true_iff in H. destruct H as [H1 H2].
  constructor; [apply IH; auto|].
  destruct s as [|y s]; constructor. unfold mi_lt. destruct (mi_cmp x y); congruence.
Qed.

(* canonical representative: two sorted lists with the same elements are equal *)
Lemma sorted_ext : forall a b, sorted a -> sorted b -> (forall x, In x a <-> In x b) -> a = b.
Proof.
  intros a b Ha Hb. apply sorted_strong in Ha. apply sorted_strong in Hb. revert b Hb.
  induction Ha as [|x a Sa IH Fa]; intros b Hb Hab.
  - destruct b as [|y b]; auto. exfalso. apply (Hab y). left; auto.
  - destruct Hb as [|y b Sb Fb].
    + exfalso. apply (Hab x). left; auto.
    + rewrite Forall_forall in Fa, Fb.
      assert (x = y).
      { assert (Hx : In x (y :: b)) by (apply Hab; left; auto).
        assert (Hy : In y (x :: a)) by (apply Hab; left; auto).
        destruct Hx as [Hx|Hx]; auto. destruct Hy as [Hy|Hy]; auto.
        exfalso. apply (mi_lt_irrefl x). apply mi_lt_trans with y; auto. }
      subst y. f_equal. apply IH; auto.
      intros z; split; intros Hz.
      * assert (In z (x :: b)) as [Hz'|Hz'] by (apply Hab; right; auto); auto.
        subst z. exfalso. apply (mi_lt_irrefl x); auto.
      * assert (In z (x :: a)) as [Hz'|Hz'] by (apply Hab; right; auto); auto.
        subst z. exfalso. apply (mi_lt_irrefl x); auto.
Qed.

Lemma sorted_NoDup : forall s, sorted s -> NoDup s.
Proof.
  intros s H. apply sorted_strong in H. induction H as [|x s Hs IH Hall]; constructor; auto.
  intros Hx. rewrite Forall_forall in Hall. apply (mi_lt_irrefl x); auto.
Qed.

Lemma of_list_ext : forall l1 l2, (forall x, In x l1 <-> In x l2) -> of_list l1 = of_list l2.
Proof.
  intros. apply sorted_ext; try apply of_list_sorted.
  intros x. rewrite !of_list_In. auto.
Qed.

Lemma of_list_sorted_id : forall s, sorted s -> of_list s = s.
Proof.
  intros. apply sorted_ext; auto; try apply of_list_sorted. intros; apply of_list_In.
Qed.
